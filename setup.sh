#!/bin/bash
# setup_cmd: offline; warms the Go build cache for the harness (plain and -race) so that
# each check's own rebuild from /repo's working tree takes seconds. Builds nothing that a check relies on.
set -u
export GOFLAGS=-mod=mod GOPROXY=off GOSUMDB=off GOTOOLCHAIN=local
cd "$(dirname "$0")/harness" || exit 1
mkdir -p ../.build ../evidence ../replays
tmp=$(mktemp -d ../.build/setup-XXXXXX)
go test -c -vet=off -o "$tmp/h.test" . || { echo "setup: harness build failed"; rm -rf "$tmp"; exit 1; }
go test -c -vet=off -race -o "$tmp/h.race.test" . || { echo "setup: race build failed (C07 stress part will be inconclusive)"; }
rm -rf "$tmp"
echo "setup ok"
