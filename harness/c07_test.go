package harness

import (
	"fmt"
	"net/http"
	"runtime"
	"sort"
	"strings"
	"sync"
	"sync/atomic"
	"testing"
	"time"

	"github.com/jub0bs/cors"
	"pgregory.net/rapid"
)

// C07: reconfiguration is atomic and race-free under concurrent traffic.

// Configurations that differ in every observable aspect (two of them GROWN versions of two others), all of them
// allowing https://shared.example so that one request is answered differently
// under each of them (and under each debug mode).
var c07Pool = []Cfg{
	{}, // index 0 = passthrough (unused entry)
	{Origins: SS("https://shared.example", "https://a.example"), Methods: SS("PUT"), RequestHeaders: SS("X-A"), MaxAge: 30, ResponseHeaders: SS("X-RA")},
	{Origins: SS("https://shared.example", "https://*.b.example:*"), Credentialed: true, Methods: SS("*"), RequestHeaders: SS("X-B", "Authorization"), Status: 200, PNA: true, ResponseHeaders: SS("X-RB")},
	{Origins: SS("*"), Methods: SS("DELETE", "PATCH"), RequestHeaders: SS("*"), MaxAge: -1, Status: 202, ResponseHeaders: SS("*")},
	{Origins: SS("https://shared.example"), Credentialed: true, RequestHeaders: SS("*"), MaxAge: 600, Status: 299, PNANoCORS: true},
	// a large configuration (behaviour that depends on size thresholds; a Config() call on it takes long enough for a Reconfigure to land inside)
	{Origins: c07ManyOrigins(300), Methods: SS("PUT", "QUERY"), RequestHeaders: c07ManyNames(40), MaxAge: 7, Status: 201, ResponseHeaders: c07ManyNames(30)},
	// configurations 5 and 1 GROWN: the same origin list with newcomers appended and every other setting different (the
	// switches that bear on origin validation unchanged) - what an incremental update of shared structures would pick on
	{Origins: append(c07ManyOrigins(300), "https://newcomer.example", "https://*.late.example:*"), Methods: SS("PATCH"), RequestHeaders: SS("X-G"), MaxAge: 60, Status: 204, ResponseHeaders: SS("X-RG")},
	{Origins: SS("https://shared.example", "https://a.example", "https://newcomer.example", "https://*.late.example:*"), Methods: SS("QUERY"), RequestHeaders: SS("X-H"), MaxAge: 61, Status: 203, ResponseHeaders: SS("X-RH")},
}

const c07NCfg = 7 // configurations 1..7 of c07Pool

func c07ManyOrigins(n int) []Str {
	out := SS("https://shared.example", "https://a.example")
	for i := 0; i < n; i++ {
		out = append(out, Str(fmt.Sprintf("https://h%d.big%d.example:%d", i, i%7, 8000+i%50)))
	}
	return out
}

func c07ManyNames(n int) []Str {
	var out []Str
	for i := 0; i < n; i++ {
		out = append(out, Str(fmt.Sprintf("X-Big-%d", i)))
	}
	return out
}

var c07Invalid = Cfg{Origins: SS("https://shared.example", "https://shared.example/"), Methods: SS("PUT"), MaxAge: 99}

type COp struct {
	Kind string `json:"kind"`          // reconf | reconf_nil | reconf_invalid | debug | config
	Cfg  int    `json:"cfg,omitempty"` // 1..c07NCfg for reconf
	On   bool   `json:"on,omitempty"`  // for debug
}

func (o COp) String() string {
	switch o.Kind {
	case "reconf":
		return fmt.Sprintf("Reconfigure(cfg%d)", o.Cfg)
	case "reconf_nil":
		return "Reconfigure(nil)"
	case "reconf_invalid":
		return "Reconfigure(invalid)"
	case "debug":
		return fmt.Sprintf("SetDebug(%v)", o.On)
	}
	return "Config()"
}

func (s dbgState) apply(o COp) dbgState {
	switch o.Kind {
	case "reconf":
		s.cfg = o.Cfg
	case "reconf_nil":
		s.cfg, s.debug = 0, false
	case "debug":
		if s.cfg != 0 {
			s.debug = o.On
		}
	}
	return s
}

func (s dbgState) String() string {
	if s.cfg == 0 {
		return "passthrough"
	}
	return fmt.Sprintf("(cfg%d, debug=%v)", s.cfg, s.debug)
}

func freshMW(s dbgState) *cors.Middleware {
	if s.cfg == 0 {
		return new(cors.Middleware)
	}
	m, err := mkMW(c07Pool[s.cfg], s.debug)
	if err != nil {
		panic(err)
	}
	return m
}

func doCOp(m *cors.Middleware, o COp) (cfgJSONResult string) {
	switch o.Kind {
	case "reconf":
		c := c07Pool[o.Cfg].Cors()
		if err := m.Reconfigure(&c); err != nil {
			panic(err)
		}
	case "reconf_nil":
		m.Reconfigure(nil)
	case "reconf_invalid":
		c := c07Invalid.Cors()
		if err := m.Reconfigure(&c); err == nil {
			panic("invalid configuration accepted")
		}
	case "debug":
		m.SetDebug(o.On)
	case "config":
		return cfgJSON(m.Config())
	}
	return ""
}

var c07Requests = func() []Req {
	o := "https://shared.example"
	return []Req{
		Preflight(o, "PUT"), Preflight(o, "UNLISTED"), Preflight(o, "DELETE", "x-a"), Preflight(o, "GET", "x-b,x-unlisted"), Preflight(o, "PUT", "authorization"),
		Preflight(o, "GET").With(hACRPN, "true"), Preflight("https://a.example", "PUT"), Preflight("https://x.b.example:8080", "PATCH", "x-b"),
		Actual("GET", o), Actual("OPTIONS", o), Actual("GET", "https://a.example"), Actual("POST", "https://other.example"),
		{Method: "GET"}, {Method: "OPTIONS"},
		Actual("GET", "https://newcomer.example"), Preflight("https://newcomer.example", "PATCH"), Actual("PUT", "https://x.late.example:444"), Preflight("https://h7.big0.example:8007", "PUT"),
	}
}()

// ---------------------------------------------------------------------------
// (a) owned schedule

type C07Case struct {
	Start dbgStateJ        `json:"start"`
	Req   int              `json:"request"`
	Plan  map[string][]COp `json:"plan"` // hand-over point -> operations injected there
}

type dbgStateJ struct {
	Cfg   int  `json:"cfg"`
	Debug bool `json:"debug"`
}

var c07Points = []string{"header#1", "header#1", "header#1", "header#2", "header#3", "handler", "handler", "writeheader#1", "writeheader#1", "write#1"}

func genCOp(t *rapid.T) COp {
	switch k := uniform(t, "opkind", 100); {
	case k < 40:
		return COp{Kind: "reconf", Cfg: intIn(t, "cfg", 1, c07NCfg)}
	case k < 50:
		return COp{Kind: "reconf_nil"}
	case k < 58:
		return COp{Kind: "reconf_invalid"}
	case k < 85:
		return COp{Kind: "debug", On: chance(t, "on", 50)}
	default:
		return COp{Kind: "config"}
	}
}

func c07Gen(t *rapid.T) C07Case {
	c := C07Case{Req: uniform(t, "req", len(c07Requests)), Plan: map[string][]COp{}}
	c.Start.Cfg = uniform(t, "startcfg", c07NCfg+1)
	if c.Start.Cfg != 0 {
		c.Start.Debug = chance(t, "startdebug", 50)
	}
	np := intIn(t, "npoints", 1, 3)
	for i := 0; i < np; i++ {
		pt := pick(t, "point", c07Points)
		n := intIn(t, "nops", 1, 4)
		for j := 0; j < n; j++ {
			c.Plan[pt] = append(c.Plan[pt], genCOp(t))
		}
	}
	return c
}

// runWithPlan serves one request; at every hand-over point it runs the
// planned operations on another goroutine and joins them (with a grace
// period: an implementation may legitimately hold a lock for the whole
// request, in which case the operation completes after the response).
func runWithPlan(m *cors.Middleware, req Req, plan map[string][]COp, order *[]COp, cfgResults *[]cfgObs) (Resp, bool) {
	var pending sync.WaitGroup
	timedOut := false
	inject := func(point string) {
		for _, o := range plan[point] {
			o := o
			*order = append(*order, o)
			idx := len(*order)
			done := make(chan string, 1)
			pending.Add(1)
			go func() {
				defer pending.Done()
				done <- doCOp(m, o)
			}()
			select {
			case res := <-done:
				c07Landed.Add(1)
				if o.Kind == "config" {
					*cfgResults = append(*cfgResults, cfgObs{after: idx - 1, json: res, exact: true})
				}
			case <-time.After(c07Grace()):
				c07Blocked.Add(1)
				// the operation is blocked by the request in flight (or the machine is overloaded); carry on.
				// From here on operations may complete out of order, so the schedule is no longer owned.
				timedOut = true
			}
		}
	}
	rec := NewRec(nil)
	rec.OnHeader = func(n int) { inject(fmt.Sprintf("header#%d", n)) }
	rec.OnWriteH = func(n int) { inject(fmt.Sprintf("writeheader#%d", n)) }
	rec.OnWrite = func(n int) { inject(fmt.Sprintf("write#%d", n)) }
	hr := req.HTTP()
	sp := &spy{wantReq: hr, wantW: rec}
	sp.script = func(w http.ResponseWriter, r *http.Request) {
		inject("handler")
		w.Header().Set("X-App", "1")
		w.WriteHeader(299)
		w.Write([]byte("ok"))
	}
	m.Wrap(sp).ServeHTTP(rec, hr)
	pending.Wait()
	return Resp{Status: rec.FinalStatus(), Hdr: rec.Final(), Body: string(rec.Body), Called: sp.called}, timedOut
}

// c07Blocked / c07Landed count injected operations that did not / did complete within the grace period. An
// implementation that holds a lock for the whole request makes every injected operation wait for the end of
// the request; such cases are never judged, and once ten operations have been blocked and they are more than a fifth of all
// injected operations the grace period shrinks from 1 s to 20 ms so that the run still finishes (the overload
// false alarm that led to the 1 s grace concerned one operation in tens of thousands).
var c07Blocked, c07Landed atomic.Int64

func c07Grace() time.Duration {
	if b := c07Blocked.Load(); b >= 10 && b > c07Landed.Load()/4 {
		return 20 * time.Millisecond
	}
	return time.Second
}

type cfgObs struct {
	after int // number of operations begun before this Config() call
	json  string
	exact bool
}

func c07Check(c C07Case, rec *Recorder) *Disc {
	if c.Req < 0 || c.Req >= len(c07Requests) || c.Start.Cfg < 0 || c.Start.Cfg > c07NCfg {
		return nil
	}
	s0 := dbgState{cfg: c.Start.Cfg, debug: c.Start.Debug && c.Start.Cfg != 0}
	req := c07Requests[c.Req]
	m := freshMW(s0)
	var order []COp
	var cfgRes []cfgObs
	early := NewServer(m.Wrap) // a handler wrapped in the START state, used again once everything has completed
	got, timedOut := runWithPlan(m, req, c.Plan, &order, &cfgRes)
	rec.Eval(1)
	if timedOut {
		// an injected operation did not complete within the grace period: later operations may have overtaken it,
		// so the sequential model of this case does not apply. Never a verdict.
		rec.Class("case-not-judged-operation-timed-out")
		return nil
	}
	// states that were current between the request's start and its end
	states := []dbgState{s0}
	for _, o := range order {
		states = append(states, states[len(states)-1].apply(o))
	}
	var sigs []string
	match := -1
	for i, s := range states {
		want, _ := runWithPlan(freshMW(s), req, nil, new([]COp), new([]cfgObs))
		sigs = append(sigs, want.Sig())
		if want.Sig() == got.Sig() && match < 0 {
			match = i
		}
	}
	hist := make([]string, len(order))
	for i, o := range order {
		hist[i] = o.String()
	}
	if match < 0 {
		var cands []string
		for i, s := range states {
			cands = append(cands, fmt.Sprintf("%s -> %s", s, abbrev(sigs[i], 300)))
		}
		return discf("start %s, request {%s}, operations injected at %v in order %v: the response %s is not the response of any single state that was current during the request:\n%s",
			s0, req.Brief(), planKeys(c.Plan), hist, abbrev(got.Sig(), 400), strings.Join(cands, "\n"))
	}
	// every injected Config() result is the normal form of the state current at that moment
	for _, co := range cfgRes {
		want := cfgJSON(freshMW(states[co.after]).Config())
		if co.json != want {
			return discf("start %s, operations %v: Config() called after %d operations returned %s; the state then was %s whose normal form is %s", s0, hist, co.after, co.json, states[co.after], want)
		}
	}
	// final state of the middleware equals the model's final state
	final := states[len(states)-1]
	if cfgJSON(m.Config()) != cfgJSON(freshMW(final).Config()) {
		return discf("start %s, operations %v: final Config() %s, model state %s", s0, hist, cfgJSON(m.Config()), final)
	}
	// after the request and all operations have completed only the final state is current: every
	// later request is answered by it alone (nothing an in-flight request learnt under an earlier
	// state survives the reconfiguration)
	// (the request that was in flight is repeated first, then the others in rotation)
	later := append(append([]Req{}, c07Requests[c.Req:]...), c07Requests[:c.Req]...)
	after := SuiteSig(NewServer(m.Wrap).Wrap, later)
	wantAfter := SuiteSig(freshMW(final).Wrap, later)
	rec.Eval(len(after))
	// ... whichever state the handler was WRAPPED in: the one wrapped before the request started follows, too
	if afterEarly := SuiteSig(early.Wrap, later); firstDiff(wantAfter, afterEarly) >= 0 {
		j := firstDiff(wantAfter, afterEarly)
		return discf("start %s, operations %v: once everything has completed the state is %s, but the handler that was wrapped in the start state answers the later request {%s} with %s instead of %s",
			s0, hist, final, later[j].Brief(), abbrev(afterEarly[j], 400), abbrev(wantAfter[j], 400))
	}
	if j := firstDiff(wantAfter, after); j >= 0 {
		return discf("start %s, request {%s}, operations injected at %v in order %v: once everything has completed the state is %s, but the later request {%s} is answered with %s instead of that state's %s",
			s0, req.Brief(), planKeys(c.Plan), hist, final, later[j].Brief(), abbrev(after[j], 400), abbrev(wantAfter[j], 400))
	}
	distinct := map[string]bool{}
	for _, s := range sigs {
		distinct[s] = true
	}
	late := false
	for pt := range c.Plan {
		if pt != "header#1" {
			late = true
		}
	}
	if len(distinct) >= 2 {
		rec.Class("candidate-states-answer-differently")
		if len(order) >= 2 || late {
			rec.NonTrivialHash(h64(fmt.Sprintf("%+v", c)))
		}
	}
	rec.Class(fmt.Sprintf("ops-%d", min(len(order), 6)))
	if len(distinct) == len(states) && len(states) >= 3 {
		rec.Class("all-candidates-pairwise-different")
	}
	return nil
}

func planKeys(p map[string][]COp) []string {
	var ks []string
	for k := range p {
		ks = append(ks, k)
	}
	sort.Strings(ks)
	return ks
}

func TestC07(t *testing.T) {
	Prop[C07Case]{ID: "C07", Part: "schedule", Gen: c07Gen, Check: c07Check,
		Rule: "(a) owned schedule: start state in {passthrough, 7 configurations differing in every observable aspect - one with 300 origin patterns, two that are another one with origins appended and everything else changed} x debug, one of 18 requests (succeeding/failing preflights, actual, non-CORS) and an injection plan: at 1-3 hand-over points " +
			"(k-th ResponseWriter.Header() call, WriteHeader, Write, entry of the wrapped handler) 1-4 operations from {Reconfigure(cfg), Reconfigure(nil), Reconfigure(invalid), SetDebug(b), Config()} run to completion on another goroutine. " +
			"Oracle: the response equals the response of a FRESH middleware in one single (configuration, debug) state that was current between request start and end; every injected Config() equals the normal form of the state current at that moment; the final state matches the model, and the 14 requests served afterwards are all answered by the final state alone. " +
			"non-trivial = the candidate states answer the request differently and at least two operations ran or one ran after the first hand-over; distinct by (start, request, plan).",
		Assumptions: []string{"operations injected at a hand-over point are joined with a 1 s grace period; a case in which one of them times out is not judged at all (later operations may overtake it), so the timeout is never a verdict",
			"interleavings between hand-over points are only sampled by the stress part"}}.Run(t)
}

// ---------------------------------------------------------------------------
// (b) stress under the race detector with a window oracle

type C07Stress struct {
	Ops     []COp `json:"ops"`
	Readers int   `json:"readers"`
}

func (c C07Stress) Brief() any {
	n := len(c.Ops)
	if n > 30 {
		n = 30
	}
	return map[string]any{"readers": c.Readers, "n_ops": len(c.Ops), "first_ops": c.Ops[:n]}
}

func c07StressGen(t *rapid.T) C07Stress {
	n := pick(t, "nops", []int{200, 500, 1000, 2000})
	c := C07Stress{Readers: pick(t, "readers", []int{8, 16, 32})}
	for i := 0; i < n; i++ {
		c.Ops = append(c.Ops, genCOp(t))
	}
	return c
}

func c07StressCheck(c C07Stress, rec *Recorder) *Disc {
	if len(c.Ops) == 0 {
		return nil
	}
	// model states after k operations, k = 0..n
	states := make([]dbgState, len(c.Ops)+1)
	states[0] = dbgState{cfg: 1}
	for i, o := range c.Ops {
		states[i+1] = states[i].apply(o)
	}
	// reference answers of every distinct state
	type key struct {
		s dbgState
		r int
	}
	ref := map[key]string{}
	refCfg := map[dbgState]string{}
	for _, s := range states {
		if _, ok := refCfg[s]; ok {
			continue
		}
		fm := freshMW(s)
		refCfg[s] = cfgJSON(fm.Config())
		for ri, r := range c07Requests {
			ref[key{s, ri}] = Do(fm.Wrap, r, nil).Sig()
		}
	}
	m := freshMW(states[0])
	var begun, completed atomic.Int64
	var stop atomic.Bool
	var (
		mu    sync.Mutex
		first *Disc
		nreq  atomic.Int64
	)
	fail := func(d *Disc) {
		mu.Lock()
		if first == nil {
			first = d
		}
		mu.Unlock()
		stop.Store(true)
	}
	var wg sync.WaitGroup
	for g := 0; g < c.Readers; g++ {
		wg.Add(1)
		go func(g int) {
			defer wg.Done()
			defer func() {
				if r := recover(); r != nil {
					fail(discf("panic in reader: %v", r))
				}
			}()
			for i := 0; !stop.Load(); i++ {
				lo := completed.Load()
				var got string
				ri := (g*7 + i) % (len(c07Requests) + 1)
				if ri == len(c07Requests) {
					got = cfgJSON(m.Config())
				} else {
					got = Do(m.Wrap, c07Requests[ri], nil).Sig()
				}
				hi := begun.Load()
				nreq.Add(1)
				ok := false
				for k := lo; k <= hi && !ok; k++ {
					if ri == len(c07Requests) {
						ok = refCfg[states[k]] == got
					} else {
						ok = ref[key{states[k], ri}] == got
					}
				}
				if !ok {
					var what string
					if ri == len(c07Requests) {
						what = "Config()"
					} else {
						what = "request {" + c07Requests[ri].Brief() + "}"
					}
					var cands []string
					for k := lo; k <= hi; k++ {
						cands = append(cands, states[k].String())
					}
					var hist []string
					for k := max(0, int(lo)-3); k < int(hi) && k < len(c.Ops); k++ {
						hist = append(hist, fmt.Sprintf("#%d %s", k+1, c.Ops[k]))
					}
					fail(discf("stress: %s observed while operations %d..%d were in flight gave %s, which no state current in that window (%v) produces; recent operations: %v", what, lo, hi, abbrev(got, 400), cands, hist))
					return
				}
			}
		}(g)
	}
	for i, o := range c.Ops {
		if stop.Load() {
			break
		}
		begun.Store(int64(i + 1))
		doCOp(m, o)
		completed.Store(int64(i + 1))
		if i%4 == 0 {
			runtime.Gosched()
		}
		if i%64 == 0 {
			time.Sleep(50 * time.Microsecond)
		}
	}
	stop.Store(true)
	wg.Wait()
	// quiescence: only the final state is current now
	if first == nil {
		final := states[len(states)-1]
		if i := int(completed.Load()); i < len(c.Ops) {
			final = states[i]
		}
		if got := cfgJSON(m.Config()); got != refCfg[final] {
			first = discf("stress: after all %d operations have completed and every reader has stopped, Config() returns %s; the final state %s has normal form %s", len(c.Ops), got, final, refCfg[final])
		}
		for ri, r := range c07Requests {
			if got := Do(m.Wrap, r, nil).Sig(); first == nil && got != ref[key{final, ri}] {
				first = discf("stress: after all %d operations have completed and every reader has stopped, {%s} is answered %s; the final state %s answers %s", len(c.Ops), r.Brief(), abbrev(got, 400), final, abbrev(ref[key{final, ri}], 400))
			}
		}
	}
	rec.Eval(int(nreq.Load()))
	rec.ClassN("concurrent-observations", int(nreq.Load()))
	rec.NonTrivialHash(h64(fmt.Sprintf("%+v", c)))
	return first
}

func TestC07Stress(t *testing.T) {
	Prop[C07Stress]{ID: "C07", Part: "stress", Gen: c07StressGen, Check: c07StressCheck,
		Rule: "(b) stress under the Go race detector: one writer executes a drawn sequence of 200-2000 operations (Reconfigure to one of 7 configurations (one with 300 origin patterns, two grown from others) / nil / invalid, SetDebug, Config) publishing begun/completed counters; 8-32 reader goroutines issue the 18 requests and Config() calls, " +
			"reading 'completed' before and 'begun' after each call; the observation must be the precomputed answer of a state whose index lies in that window; once the writer and all readers have stopped, Config() and the 14 requests are answered by the final state. Any data race reported by the detector fails the run. " +
			"evaluations = concurrent observations checked; non-trivial = every drawn operation sequence (each is run against live readers); distinct by sequence.",
		Assumptions: []string{"schedule-dependent: a failure is reported with the operation history and the offending observation; it may not reproduce on replay"}}.Run(t)
}

// ---------------------------------------------------------------------------
// (c) two concurrent writers: lost updates

type C07Writers struct {
	Rounds [][2]COp `json:"rounds"`
}

func (c C07Writers) Brief() any {
	n := len(c.Rounds)
	if n > 12 {
		n = 12
	}
	return map[string]any{"n_rounds": len(c.Rounds), "first_rounds": c.Rounds[:n]}
}

func genWriterOp(t *rapid.T) COp {
	switch k := uniform(t, "wop", 100); {
	case k < 45:
		return COp{Kind: "reconf", Cfg: intIn(t, "cfg", 1, c07NCfg)}
	case k < 55:
		return COp{Kind: "reconf_nil"}
	case k < 60:
		return COp{Kind: "reconf_invalid"}
	default:
		return COp{Kind: "debug", On: chance(t, "on", 60)}
	}
}

func c07WritersGen(t *rapid.T) C07Writers {
	var c C07Writers
	n := pick(t, "nrounds", []int{300, 1000, 3000})
	for i := 0; i < n; i++ {
		a, b := genWriterOp(t), genWriterOp(t)
		// the interesting pairs mix a configuration change with a debug change
		if chance(t, "mixed", 60) {
			a = COp{Kind: "reconf", Cfg: intIn(t, "cfgm", 1, c07NCfg)}
			if chance(t, "nilm", 20) {
				a = COp{Kind: "reconf_nil"}
			}
			b = COp{Kind: "debug", On: chance(t, "onm", 60)}
		}
		if chance(t, "twocfg", 25) {
			// two configuration changes at once, one of them often to passthrough
			a = COp{Kind: "reconf", Cfg: intIn(t, "cfga", 1, c07NCfg)}
			b = COp{Kind: "reconf", Cfg: intIn(t, "cfgb", 1, c07NCfg)}
			if chance(t, "nila", 60) {
				a = COp{Kind: "reconf_nil"}
			}
		}
		if chance(t, "swap", 50) {
			a, b = b, a
		}
		if chance(t, "tonil", 40) {
			// the transition to passthrough with debug ON beforehand, racing with a call that depends on or sets the
			// debug flag: two rounds whose calls are identical (hence deterministic) establish (cfgK, debug on) first
			k := intIn(t, "cfgk", 1, 4)
			c.Rounds = append(c.Rounds, [2]COp{{Kind: "reconf", Cfg: k}, {Kind: "reconf", Cfg: k}}, [2]COp{{Kind: "debug", On: true}, {Kind: "debug", On: true}})
			a = COp{Kind: "reconf_nil"}
			switch uniform(t, "against", 4) {
			case 0:
				b = COp{Kind: "debug", On: true}
			case 1, 2:
				b = COp{Kind: "reconf", Cfg: intIn(t, "cfgn", 1, 4)}
			default:
				b = COp{Kind: "debug", On: false}
			}
			if chance(t, "swap2", 50) {
				a, b = b, a
			}
		}
		c.Rounds = append(c.Rounds, [2]COp{a, b})
	}
	return c
}

func stateSig(m *cors.Middleware) string {
	var b strings.Builder
	b.WriteString(cfgJSON(m.Config()))
	for _, r := range c07Requests {
		b.WriteString("\n")
		b.WriteString(Do(m.Wrap, r, nil).Sig())
	}
	return b.String()
}

// quickObs makes four independent observations of the middleware's state:
// Config(), a debug-sensitive failing preflight, a succeeding preflight and an
// actual request. Each is a single call and is judged on its own (the state
// may legitimately change between two of them).
func quickOb(m *cors.Middleware, k int) string {
	switch k {
	case 0:
		return cfgJSON(m.Config())
	case 1:
		return Do(m.Wrap, c07Requests[1], nil).Sig()
	case 2:
		return Do(m.Wrap, c07Requests[0], nil).Sig()
	}
	return Do(m.Wrap, c07Requests[8], nil).Sig()
}

func quickObs(m *cors.Middleware) [4]string {
	return [4]string{cfgJSON(m.Config()), Do(m.Wrap, c07Requests[1], nil).Sig(), Do(m.Wrap, c07Requests[0], nil).Sig(), Do(m.Wrap, c07Requests[8], nil).Sig()}
}

func c07WritersCheck(c C07Writers, rec *Recorder) *Disc {
	ref := map[dbgState]string{}
	sigOf := func(s dbgState) string {
		if v, ok := ref[s]; ok {
			return v
		}
		v := stateSig(freshMW(s))
		ref[s] = v
		return v
	}
	qref := map[dbgState][4]string{}
	qsigOf := func(s dbgState) [4]string {
		if v, ok := qref[s]; ok {
			return v
		}
		v := quickObs(freshMW(s))
		qref[s] = v
		return v
	}
	s := dbgState{cfg: 1}
	m := freshMW(s)
	const nReaders = 5
	// how long a call takes before it reaches the lock (validation of the configuration), measured once per
	// configuration: the timing sweep below is centred on the instant at which both calls would reach it together
	var cost [c07NCfg + 1]time.Duration
	{
		scratch := new(cors.Middleware)
		for k := 1; k <= c07NCfg; k++ {
			best := time.Hour
			for rep := 0; rep < 4; rep++ {
				cfg := c07Pool[k].Cors()
				t0 := time.Now()
				_ = scratch.Reconfigure(&cfg)
				if d := time.Since(t0); d < best {
					best = d
				}
			}
			cost[k] = best
		}
	}
	costOf := func(o COp) time.Duration {
		if o.Kind == "reconf" {
			return cost[o.Cfg]
		}
		return 0
	}
	for i, round := range c.Rounds {
		start := make(chan struct{})
		var wg, rg sync.WaitGroup
		var stop atomic.Bool
		seen := make([]map[[2]string]struct{}, nReaders) // (kind, result)
		for r := 0; r < nReaders; r++ {
			seen[r] = map[[2]string]struct{}{}
			rg.Add(1)
			go func(r int) {
				defer rg.Done()
				<-start
				for !stop.Load() {
					// each reader repeats ONE kind of observation as fast as it can (two readers take the
					// debug-sensitive failing preflight), so that short-lived states are more likely to be seen
					k := []int{1, 0, 2, 1, 3}[r]
					seen[r][[2]string{fmt.Sprint(k), quickOb(m, k)}] = struct{}{}
				}
			}(r)
		}
		for j, o := range round {
			o := o
			// sweep the relative timing of the two calls: a call that validates a configuration reaches the lock
			// microseconds after one that does not, so one of the two is held back by 0-12 us (a function of the round)
			var hold time.Duration
			if i%4 < 2 {
				if j == i%2 {
					hold = time.Duration((i/4)%50) * 250 * time.Nanosecond
				}
			} else if other := round[1-j]; costOf(other) > costOf(o) {
				// the quicker call is held back by the difference of the two costs, plus -3..+3 us in steps of 125 ns
				hold = costOf(other) - costOf(o) + time.Duration((i/4)%49-24)*125*time.Nanosecond
				if hold < 0 {
					hold = 0
				}
			}
			wg.Add(1)
			go func() {
				defer wg.Done()
				<-start
				for t0 := time.Now(); time.Since(t0) < hold; {
				}
				doCOp(m, o)
			}()
		}
		runtime.Gosched()
		close(start)
		wg.Wait()
		stop.Store(true)
		rg.Wait()
		rec.Eval(1)
		got := stateSig(m)
		// a serial order explains the round if its final state is the observed final state and every
		// concurrent observation is one of the three states it passes through
		orders := [2][2]COp{{round[0], round[1]}, {round[1], round[0]}}
		var explained bool
		var next dbgState
		for _, ord := range orders {
			s1 := s.apply(ord[0])
			s2 := s1.apply(ord[1])
			if got != sigOf(s2) {
				continue
			}
			ok := true
			allowed := map[[2]string]bool{}
			for _, st := range []dbgState{s, s1, s2} {
				for k, v := range qsigOf(st) {
					allowed[[2]string{fmt.Sprint(k), v}] = true
				}
			}
			for r := range seen {
				for o := range seen[r] {
					if !allowed[o] {
						ok = false
					}
				}
			}
			if ok {
				explained, next = true, s2
				break
			}
		}
		if !explained {
			var obs []string
			for r := range seen {
				for o := range seen[r] {
					obs = append(obs, abbrev(o[0]+": "+o[1], 260))
				}
			}
			sort.Strings(obs)
			return discf("two concurrent writers + %d readers, round %d: state before %s, concurrent calls %s and %s; no serial order of the two calls explains both the final state and what the readers saw meanwhile. final Config()/answers: %s ; distinct concurrent observations: %v",
				nReaders, i, s, round[0], round[1], abbrev(got, 300), obs)
		}
		if s.apply(round[0]).apply(round[1]) != s.apply(round[1]).apply(round[0]) {
			rec.Class("order-matters")
		}
		s = next
		if s.cfg == 0 {
			// a passthrough middleware shows nothing of its debug flag; reveal it: Reconfigure(nil) has switched
			// debug off, so after a quiescent Reconfigure(cfg1) the state must be (cfg1, debug=false)
			reveal := COp{Kind: "reconf", Cfg: 1}
			doCOp(m, reveal)
			s = s.apply(reveal)
			if got := stateSig(m); got != sigOf(s) {
				return discf("two concurrent writers, round %d: concurrent calls %s and %s left the middleware passthrough; a following Reconfigure(cfg1) (nothing else running) gives a state that is not %s: %s",
					i, round[0], round[1], s, abbrev(got, 400))
			}
			rec.Class("revealed-after-passthrough")
		}
	}
	rec.NonTrivialHash(h64(fmt.Sprintf("%+v", c.Rounds[:min(len(c.Rounds), 50)])))
	return nil
}

func TestC07Writers(t *testing.T) {
	Prop[C07Writers]{ID: "C07", Part: "writers", Gen: c07WritersGen, Check: c07WritersCheck,
		Rule: "(c) two concurrent writers and five concurrent readers (each repeating one kind of observation; the relative timing of the two calls is swept: one call held back by 0-12 us, or the quicker call held back by the measured difference of the two calls' validation times -3..+3 us): 300-3000 rounds; in each round two calls (Reconfigure to one of 7 configurations (one with 300 origin patterns, two grown from others) / nil / invalid, SetDebug; 60% of rounds pair a configuration change with a debug change; 40% are preceded by two deterministic rounds establishing (cfgK, debug on) and then race Reconfigure(nil) against SetDebug or Reconfigure(cfg)) are released at the same instant on two goroutines; " +
			"a serial order of the two calls must explain BOTH the final state (Config() and the answers to the 14 requests equal those of a fresh middleware in the state that order ends in) AND every observation the readers made meanwhile (each must be one of the three states that order passes through); lost updates and transient never-current states are thereby visible; whenever a round ends in passthrough, a quiescent Reconfigure(cfg1) follows and must give (cfg1, debug off), which reveals a debug flag wrongly kept by a passthrough middleware. Runs under the race detector. " +
			"evaluations = rounds; non-trivial = every drawn round sequence; distinct by sequence.",
		Assumptions: []string{"schedule-dependent like the stress part: a lost update needs the two calls to overlap"}}.Run(t)
}
