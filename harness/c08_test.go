package harness

import (
	"fmt"
	"strings"
	"testing"

	"github.com/jub0bs/cors"
	"pgregory.net/rapid"
)

// C08: a rejected Reconfigure leaves the middleware exactly as it was.

type C08Case struct {
	Prior   *Cfg `json:"prior"` // nil = passthrough
	Debug   bool `json:"debug"`
	Invalid Cfg  `json:"invalid"`
	// Derived: the invalid configuration is obtained at check time from the
	// middleware's own Config() (the get-modify-set workflow) by applying Edit.
	Derived bool   `json:"derived,omitempty"`
	Edit    string `json:"edit,omitempty"`
	// Earlier are Reconfigure calls (accepted or rejected, as the library decides) made on the same
	// middleware before the judged one: what a rejected call leaves untouched must not depend on them.
	Earlier []Cfg `json:"earlier,omitempty"`
}

var c08Edits = []string{"pna", "pna-nocors", "both-pna", "credentialed", "star-origin", "insecure-origin", "psl-origin", "bad-origin", "bad-method", "bad-reqhdr", "bad-reshdr",
	"star-reshdr", "maxage", "status", "untolerate-insecure", "untolerate-psl", "no-origins",
	"grow-origins+bad-method", "grow-origins+bad-reqhdr", "grow-origins+maxage", "grow-origins+status", "grow-origins+bad-origin"}

// applyEdit plants one change into a copy of the current configuration.
func applyEdit(c Cfg, edit string) Cfg {
	c.Origins = append([]Str{}, c.Origins...)
	switch edit {
	case "pna":
		c.PNA = true
	case "pna-nocors":
		c.PNANoCORS = true
	case "both-pna":
		c.PNA, c.PNANoCORS = true, true
	case "credentialed":
		c.Credentialed = true
	case "star-origin":
		c.Origins = append(c.Origins, "*")
		c.Credentialed = true
	case "insecure-origin":
		c.Origins = append(c.Origins, "http://insecure.example")
		c.Credentialed, c.TolInsecure = true, false
	case "psl-origin":
		c.Origins = append(c.Origins, "https://*.com")
		c.TolPSL = false
	case "bad-origin":
		c.Origins = append(c.Origins, "https://example.com/")
	case "bad-method":
		c.Methods = append(append([]Str{}, c.Methods...), "TRACE")
	case "bad-reqhdr":
		c.RequestHeaders = append(append([]Str{}, c.RequestHeaders...), "Cookie")
	case "bad-reshdr":
		c.ResponseHeaders = append(append([]Str{}, c.ResponseHeaders...), "Set-Cookie")
	case "star-reshdr":
		c.ResponseHeaders = append(append([]Str{}, c.ResponseHeaders...), "*")
		c.Credentialed = true
	case "maxage":
		c.MaxAge = 86401
	case "status":
		c.Status = 456
	case "untolerate-insecure":
		c.TolInsecure = false
	case "untolerate-psl":
		c.TolPSL = false
	case "no-origins":
		c.Origins = nil
	}
	if rest, ok := strings.CutPrefix(edit, "grow-origins+"); ok {
		// valid additions next to the current origins (same host with another port / any port, a subdomain, a sibling scheme) ...
		var extra []Str
		for _, o := range c.Origins {
			if p, ok := SplitPat(string(o)); ok && o != "*" {
				extra = append(extra, Str(Pat{Scheme: p.Scheme, Wild: p.Wild, Host: p.Host, Port: "*"}.String()),
					Str(Pat{Scheme: p.Scheme, Wild: p.Wild, Host: p.Host, Port: "4321"}.String()), Str(Pat{Scheme: p.Scheme, Wild: p.Wild, Host: p.Host, Port: "1"}.String()))
				if !strings.HasPrefix(p.Host, "[") && !isDig(p.Host[len(p.Host)-1]) {
					extra = append(extra, Str(Pat{Scheme: p.Scheme, Host: "extra." + p.Host, Port: p.Port}.String()))
				}
			}
			if len(extra) >= 8 {
				break
			}
		}
		c.Origins = append(c.Origins, extra...)
		// ... plus one violation elsewhere
		switch rest {
		case "bad-method":
			c.Methods = append(append([]Str{}, c.Methods...), "CONNECT")
		case "bad-reqhdr":
			c.RequestHeaders = append(append([]Str{}, c.RequestHeaders...), "Host")
		case "maxage":
			c.MaxAge = -2
		case "status":
			c.Status = 300
		case "bad-origin":
			c.Origins = append(c.Origins, "https://example.com:0")
		}
	}
	return c
}

// repaired removes every violation from an atom-built configuration, keeping
// its valid fields: what a partial application would install.
func repaired(c Cfg) Cfg {
	r := Cfg{MaxAge: c.MaxAge, Status: c.Status, TolInsecure: true, TolPSL: true, PNA: c.PNA && !c.PNANoCORS, PNANoCORS: false}
	if r.MaxAge < -1 || r.MaxAge > 86400 {
		r.MaxAge = 0
	}
	if r.Status != 0 && (r.Status < 200 || r.Status > 299) {
		r.Status = 0
	}
	for _, o := range c.Origins {
		if a, ok := findOriginAtom(string(o)); ok && !a.Invalid {
			r.Origins = append(r.Origins, o)
		}
	}
	if len(r.Origins) == 0 {
		r.Origins = SS("https://repaired.example")
	}
	for _, m := range c.Methods {
		if a, ok := findName(methodAtomsL, string(m)); ok && a.Reason == "" {
			r.Methods = append(r.Methods, m)
		}
	}
	for _, h := range c.RequestHeaders {
		if a, ok := findName(reqHdrAtomsL, string(h)); ok && a.Reason == "" {
			r.RequestHeaders = append(r.RequestHeaders, h)
		}
	}
	for _, h := range c.ResponseHeaders {
		if a, ok := findName(resHdrAtomsL, string(h)); ok && a.Reason == "" {
			r.ResponseHeaders = append(r.ResponseHeaders, h)
		}
	}
	return r
}

func c08Gen(t *rapid.T) C08Case {
	var c C08Case
	if !chance(t, "passthrough", 20) {
		p := genValidCfg(t)
		c.Prior = &p
		c.Debug = chance(t, "debug", 50)
	}
	if chance(t, "earlier", 35) {
		for i, n := 0, intIn(t, "nearlier", 1, 3); i < n; i++ {
			if chance(t, "earliervalid", 50) {
				c.Earlier = append(c.Earlier, genValidCfg(t))
			} else {
				c.Earlier = append(c.Earlier, genAtomCfg(t, mixOneViolation))
			}
		}
	}
	if c.Prior != nil && chance(t, "derived", 50) {
		c.Derived = true
		c.Edit = pick(t, "edit", c08Edits)
		return c
	}
	for {
		mix := mixMany
		if chance(t, "single", 50) {
			mix = mixOneViolation
		}
		inv := genAtomCfg(t, mix)
		if exp, _ := Violations(inv); len(exp) > 0 {
			c.Invalid = inv
			return c
		}
	}
}

func c08Check(c C08Case, rec *Recorder) *Disc {
	var m *cors.Middleware
	if c.Prior == nil {
		m = new(cors.Middleware)
	} else {
		var err error
		m, err = cors.NewMiddleware(c.Prior.Cors())
		if err != nil {
			rec.Class("rejected-prior")
			return nil
		}
		m.SetDebug(c.Debug)
	}
	cur := c.Prior
	hist := ""
	for i := range c.Earlier {
		e := c.Earlier[i].Cors()
		if err := m.Reconfigure(&e); err == nil {
			cur = &c.Earlier[i]
			hist += "a"
		} else {
			hist += "r"
		}
	}
	if hist != "" {
		rec.Class("earlier-calls:" + hist)
	}
	if c.Derived {
		if m.Config() == nil {
			return nil
		}
		// get-modify-set: start from the middleware's own normal form
		c.Invalid = applyEdit(CfgFromCors(m.Config()), c.Edit)
		// is the edited configuration really invalid? ask a fresh middleware
		if _, err := cors.NewMiddleware(c.Invalid.Cors()); err == nil {
			rec.Class("derived-edit-still-valid")
			return nil
		}
		rec.Class("derived:" + c.Edit)
	} else if exp, ok := Violations(c.Invalid); !ok || len(exp) == 0 {
		return nil
	}
	rep := repaired(c.Invalid)
	if c.Derived {
		// what a partial application would install: the edit without its offending part
		rep = CfgFromCors(m.Config())
		rep.MaxAge, rep.Status = 77, 201
	}
	var suite []Req
	if cur != nil {
		suite = append(suite, Suite(*cur)...)
	}
	suite = append(suite, Suite(rep)...)
	// the rejected configuration's own spellings, asked of the current state
	suite = append(suite, CrossSuite(cur, c.Invalid)...)
	wrap := oneWrap(m.Wrap) // one wrapped handler across the rejected call
	before := SuiteSig(wrap, suite)
	cfgBefore := cfgJSON(m.Config())
	inv := c.Invalid.Cors()
	err := m.Reconfigure(&inv)
	rec.Eval(2 * len(suite))
	if err == nil {
		return discf("Reconfigure accepted the invalid configuration %+v", c.Invalid)
	}
	after := SuiteSig(wrap, suite)
	if i := firstDiff(before, after); i >= 0 {
		return discf("prior %+v debug=%v earlier Reconfigure calls %+v (%s): after the rejected Reconfigure(%+v), {%s} is answered %s instead of %s", c.Prior, c.Debug, c.Earlier, hist, c.Invalid, suite[i].Brief(), abbrev(after[i], 400), abbrev(before[i], 400))
	}
	if got := cfgJSON(m.Config()); got != cfgBefore {
		return discf("prior %+v: Config() changed after a rejected Reconfigure(%+v): %s -> %s", c.Prior, c.Invalid, cfgBefore, got)
	}
	// debug mode as it was: SetDebug(current) must be a no-op and a failing
	// preflight must still be answered as before (covered by the suite), and
	// on a passthrough the middleware must still be a passthrough
	if cur == nil && m.Config() != nil {
		return discf("passthrough middleware got a configuration from a rejected Reconfigure(%+v)", c.Invalid)
	}
	// non-triviality: would a partial application have been visible?
	if mr, err := cors.NewMiddleware(rep.Cors()); err == nil {
		mr.SetDebug(c.Debug && c.Prior != nil && cur != nil)
		if firstDiff(before, SuiteSig(mr.Wrap, suite)) >= 0 {
			rec.NonTrivialHash(h64(fmt.Sprintf("%+v|%v|%+v", c.Prior, c.Debug, c.Invalid)))
			rec.Class("partial-application-would-be-visible")
		}
	}
	if c.Prior == nil {
		rec.Class("prior-passthrough")
	} else if c.Debug {
		rec.Class("prior-configured-debug-on")
	} else {
		rec.Class("prior-configured-debug-off")
	}
	return nil
}

func TestC08(t *testing.T) {
	Prop[C08Case]{ID: "C08", Gen: c08Gen, Check: c08Check,
		Rule: "generator: prior state in {passthrough, any valid configuration x debug on/off} x (35%) 1-3 earlier Reconfigure calls on the same middleware, each with a valid or a one-violation configuration x invalid configuration: either from the labelled-atom generator (exactly one planted violation, or many simultaneous violations; the other fields valid and unrelated to the prior state) or DERIVED from the middleware's own Config() by one of 22 edits (17 single edits; 5 compound ones that first GROW the origin list with valid neighbours of the current patterns - same host with another/any port, a subdomain - and then add one violation elsewhere) (get-modify-set: switch on a PNA mode or credentials, add */insecure/public-suffix/malformed origin, bad method/header, bounds, drop a tolerate switch), judged invalid by a fresh NewMiddleware. " +
			"Oracle: Reconfigure returns non-nil; responses on Suite(prior) u Suite(repaired(invalid)) u preflights from an origin the prior state allows that use the rejected configuration's own method spellings and header names, the Config() value and passthrough-ness are the same before and after. " +
			"non-trivial = the 'repaired' variant of the invalid configuration (violations removed, valid fields kept) answers the suite differently from the prior state, i.e. a partial application would be visible; distinct by (prior, debug, invalid).",
		Assumptions: []string{"debug mode is observed through the failing-preflight requests of the suite"}}.Run(t)
}
