package harness

import (
	"fmt"
	"net/http"
	"sort"
	"strings"
	"testing"

	"github.com/jub0bs/cors"
	"pgregory.net/rapid"
)

// C01: allowed origins are exactly the union of what the patterns denote.

type C01Case struct {
	Cred  bool  `json:"credentialed,omitempty"` // same question under a credentialed configuration (never together with *)
	Pats  []Str `json:"patterns"`
	Twin  []Str `json:"twin"`            // permutation with duplications
	Extra []Str `json:"extra,omitempty"` // additional probes
}

const c01Rule = "generator: 1-6 valid origin patterns derived from a shared pool of base hosts over a tiny label alphabet " +
	"(hosts share byte suffixes that are not label boundaries; exact and *. variants, trailing dots, IPv4/IPv6 literals, several schemes/ports), " +
	"or long hosts up to 253 bytes with 64-byte schemes, or (5%) 9-260 patterns around one base host (siblings differing in the byte next to a shared suffix, many ports or many schemes on one host, a chain of ever deeper subdomains); ~14% of lists additionally contain the single asterisk at a drawn position, 25% are checked under a credentialed configuration; a twin list = drawn permutation with drawn duplications; probes = complete near-miss set " +
	"of every pattern (left extension without dot, truncation on either side, deeper/shallower/sibling subdomain, scheme prefix/suffix/other, " +
	"port absent/default/65535/digit-appended/truncated) plus drawn extras. evaluations = probe verdicts compared with the denotation model " +
	"(GET and preflight, list and twin). non-trivial case = list with >=2 distinct patterns of which two share a non-empty host byte suffix; " +
	"distinct by ordered pattern list + twin."

func c01Gen(t *rapid.T) C01Case {
	var ps []Pat
	if chance(t, "long", 7) {
		ps = genLongPatList(t)
	} else if chance(t, "wide", 5) {
		ps = genWidePatList(t)
	} else {
		ps = genPatList(t)
	}
	c := C01Case{Pats: patStrings(ps)}
	// twin: permutation with duplications
	perm := rapid.Permutation(ps).Draw(t, "perm")
	var twin []Pat
	for _, p := range perm {
		twin = append(twin, p)
		if chance(t, "dup", 25) {
			twin = append(twin, p)
		}
	}
	if chance(t, "dupfront", 30) {
		twin = append(twin, perm[0])
	}
	c.Twin = patStrings(twin)
	// the single asterisk, at any position and multiplicity, makes every origin allowed
	c.Cred = chance(t, "cred", 25)
	if !c.Cred && chance(t, "star", 18) {
		c.Pats = insertAt(t, c.Pats, "*")
		c.Twin = insertAt(t, c.Twin, "*")
		if chance(t, "star2", 30) {
			c.Twin = insertAt(t, c.Twin, "*")
		}
	}
	// a few unrelated well-formed probes
	n := rapid.IntRange(0, 4).Draw(t, "nextra")
	for i := 0; i < n; i++ {
		h := genTinyDomain(t, "xhost")
		c.Extra = append(c.Extra, Str(originString(pick(t, "xscheme", tinySchemes), h, pick(t, "xport", []string{"", "1", "8080", "65535"}))))
	}
	return c
}

func sharesHostSuffix(ps []Pat) bool {
	for i := range ps {
		for j := i + 1; j < len(ps); j++ {
			a, b := ps[i].Host, ps[j].Host
			if ps[i].String() == ps[j].String() {
				continue
			}
			if a != "" && b != "" && a[len(a)-1] == b[len(b)-1] {
				return true
			}
		}
	}
	return false
}

// nonBoundarySuffix: two hosts share a byte suffix that does not start at a
// label boundary in at least one of them (e.g. com / xcom).
func nonBoundarySuffix(ps []Pat) bool {
	for i := range ps {
		for j := range ps {
			if i == j {
				continue
			}
			a, b := ps[i].Host, ps[j].Host
			k := 0
			for k < len(a) && k < len(b) && a[len(a)-1-k] == b[len(b)-1-k] {
				k++
			}
			if k == 0 || k == len(a) && k == len(b) {
				continue
			}
			// boundary in a: k == len(a) or a[len(a)-k-1]=='.'
			ba := k == len(a) || a[len(a)-k-1] == '.'
			bb := k == len(b) || b[len(b)-k-1] == '.'
			if !ba || !bb {
				return true
			}
		}
	}
	return false
}

func originVerdicts(wrap func(http.Handler) http.Handler, o string) (getOK, pfOK bool, bad string) {
	return originVerdictsStar(wrap, o, false)
}

// originVerdictsStar: when the configuration lists "*" (star), the literal
// value * in ACAO is how "allowed" is expressed.
func originVerdictsStar(wrap func(http.Handler) http.Handler, o string, star bool) (getOK, pfOK bool, bad string) {
	r := Do(wrap, Actual("GET", o), nil)
	acao := r.Hdr[hACAO]
	switch {
	case len(acao) == 0:
	case len(acao) == 1 && (acao[0] == o || star && acao[0] == "*"):
		getOK = true
	default:
		bad = fmt.Sprintf("GET Origin %q: malformed ACAO %q", o, acao)
		return
	}
	if r.Called != 1 {
		bad = fmt.Sprintf("GET Origin %q: handler called %d times", o, r.Called)
		return
	}
	p := Do(wrap, Preflight(o, "GET"), nil)
	acao = p.Hdr[hACAO]
	switch {
	case len(acao) == 0: // refused, whatever the status (the documentation does not pin one)
	case p.Status >= 200 && p.Status <= 299 && len(acao) == 1 && (acao[0] == o || star && acao[0] == "*"):
		pfOK = true
	default:
		bad = fmt.Sprintf("preflight Origin %q: status %d ACAO %q", o, p.Status, acao)
	}
	return
}

func c01Check(c C01Case, rec *Recorder) *Disc {
	cfg := Cfg{Origins: c.Pats, TolPSL: true, TolInsecure: true, Credentialed: c.Cred}
	m1, err := cors.NewMiddleware(cfg.Cors())
	if err != nil {
		rec.Class("rejected-list")
		return nil // acceptance of valid patterns is C13's and C05's business
	}
	cfg2 := Cfg{Origins: c.Twin, TolPSL: true, TolInsecure: true, Credentialed: c.Cred}
	m2, err := cors.NewMiddleware(cfg2.Cors())
	if err != nil {
		return discf("list %q accepted but its permuted/duplicated twin %q rejected: %v", c.Pats, c.Twin, err)
	}
	model := NewOriginModel(c.Pats)
	probes := NearMissProbes(model.Pats)
	for _, e := range c.Extra {
		probes = append(probes, string(e))
	}
	// every wildcard-free, port-wildcard-free pattern is its own probe
	for _, p := range model.Pats {
		if !p.Wild && p.Port != "*" {
			probes = append(probes, p.String())
		}
	}
	distinct := map[string]struct{}{}
	for _, p := range model.Pats {
		distinct[p.String()] = struct{}{}
	}
	if len(distinct) >= 2 && sharesHostSuffix(model.Pats) {
		rec.NonTrivial(strings.Join(ss(c.Pats), " "), strings.Join(ss(c.Twin), " "))
		rec.Class("nontrivial-list")
	}
	if model.All {
		rec.Class("list-with-asterisk")
	}
	if nonBoundarySuffix(model.Pats) {
		rec.Class("list-with-non-label-boundary-shared-suffix")
	}
	hits, misses := 0, 0
	// every probe of a middleware goes through one wrapped handler: the model knows no history
	wraps := []func(http.Handler) http.Handler{oneWrap(m1.Wrap), oneWrap(m2.Wrap)}
	m1.Config() // Config() is an observer: calling it (on the first middleware only) changes nothing about matching
	for _, o := range probes {
		if !hostLenOK(o) && (model.All || model.DenotedBy(o)) {
			// beyond the documented component limits only a wildcard (or *) could reach the origin: grey.
			// An over-long origin that NO pattern reaches is judged like any other near miss.
			rec.Class("probe-not-judged-too-long")
			continue
		}
		exp := model.Allowed(o)
		for i, wrap := range wraps {
			g, p, bad := originVerdictsStar(wrap, o, model.All)
			if bad != "" {
				return discf("patterns %q (middleware %d): %s", pick2(i, c.Pats, c.Twin), i, bad)
			}
			if g != exp || p != exp {
				return discf("patterns %q, origin %q: model says allowed=%v, GET says %v, preflight says %v (middleware %d; 0=list 1=twin %q)",
					c.Pats, o, exp, g, p, i, c.Twin)
			}
		}
		if exp {
			hits++
		} else {
			misses++
		}
	}
	rec.Eval(4 * (hits + misses))
	rec.ClassN("probe-allowed", hits)
	rec.ClassN("probe-near-miss-rejected", misses)
	return nil
}

func pick2(i int, a, b []Str) []Str {
	if i == 0 {
		return a
	}
	return b
}

func c01Prop() Prop[C01Case] {
	return Prop[C01Case]{ID: "C01", Rule: c01Rule, Gen: c01Gen, Check: c01Check,
		Assumptions: []string{"reference model `Denotes` is a faithful reading of the property statement",
			"only well-formed serialised origins within the documented length limits are probed (malformed input belongs to C03)"}}
}

func TestC01(t *testing.T) { c01Prop().Run(t) }

func FuzzC01(f *testing.F) { FuzzProp(f, c01Prop()) }

// ---------------------------------------------------------------------------
// Exhaustive small-scope part (thorough tier): all ordered pairs and triples
// of patterns from a small universe, probed with every origin of the
// universe.

func c01Universe() (pats []Pat, origins []string) {
	hosts := []string{"a", "b", "ab", "ba", "a.a", "b.a", "ab.a", "a.ab", "a.b", "ba.a", "a.ba", "b.ab"}
	schemes := []string{"http", "htt"}
	ports := []string{"", "1", "*"}
	for _, s := range schemes {
		for _, h := range hosts {
			for _, w := range []bool{false, true} {
				for _, p := range ports {
					pats = append(pats, Pat{Scheme: s, Wild: w, Host: h, Port: p})
				}
			}
		}
	}
	ohosts := map[string]struct{}{}
	for _, h := range hosts {
		ohosts[h] = struct{}{}
		for _, f := range []string{"a", "b", "ab", "b.a"} {
			ohosts[f+"."+h] = struct{}{}
			ohosts[f+h] = struct{}{}
		}
	}
	hs := keys(ohosts)
	for _, s := range schemes {
		for _, h := range hs {
			for _, p := range []string{"", "1", "2"} {
				origins = append(origins, originString(s, h, p))
			}
		}
	}
	sort.Strings(origins)
	return
}

type C01Ex struct {
	Pats []Str `json:"patterns"`
}

func c01ExCheck(c C01Ex, origins []string, rec *Recorder) *Disc {
	cfg := Cfg{Origins: c.Pats, TolPSL: true}
	m, err := cors.NewMiddleware(cfg.Cors())
	if err != nil {
		return discf("valid pattern list %q rejected: %v", c.Pats, err)
	}
	model := NewOriginModel(c.Pats)
	wrap := oneWrap(m.Wrap)
	if h64(fmt.Sprint(c.Pats))%2 == 0 {
		m.Config() // an observer; called for part of the enumeration only
	}
	n := 0
	for _, o := range origins {
		exp := model.DenotedBy(o)
		r := Do(wrap, Actual("GET", o), nil)
		acao := r.Hdr[hACAO]
		got := len(acao) == 1 && acao[0] == o
		if got != exp || (len(acao) > 0 && !got) {
			return discf("patterns %q, origin %q: model allowed=%v, ACAO=%q", c.Pats, o, exp, acao)
		}
		n++
	}
	rec.Eval(n)
	return nil
}

func TestC01Exhaustive(t *testing.T) {
	rec := NewRecorder("C01", "exhaustive")
	rule := "exhaustive: every ordered pair of patterns (and every ordered triple over a reduced universe) from {http,htt} x 12 hosts of <=2 labels over {a,b,ab,ba} x {exact,*.} x ports {none,1,*}, " +
		"each list probed with every origin of the universe (hosts, hosts extended on the left with and without a dot) x ports {none,1,2}; non-trivial = every list (all share suffix bytes by construction of the alphabet)"
	defer func() { rec.Flush(rule, nil, 0) }()
	if path := envOr("VERIF_REPLAY", ""); path != "" {
		c, err := loadCase[C01Ex](path)
		if err != nil {
			t.Fatal(err)
		}
		_, origins := c01Universe()
		if d := c01ExCheck(c, origins, rec); d != nil {
			reportViolation("C01", path, d)
			t.FailNow()
		}
		return
	}
	pats, origins := c01Universe()
	type job struct{ ps []Pat }
	jobs := make(chan job, 1024)
	fail := make(chan struct {
		c C01Ex
		d *Disc
	}, 64)
	done := make(chan struct{})
	workers := envInt("VERIF_WORKERS", 16)
	for w := 0; w < workers; w++ {
		go func() {
			for j := range jobs {
				c := C01Ex{Pats: patStrings(j.ps)}
				if d := safely(func() *Disc { return c01ExCheck(c, origins, rec) }); d != nil {
					select {
					case fail <- struct {
						c C01Ex
						d *Disc
					}{c, d}:
					default:
					}
				}
				rec.NonTrivial(strings.Join(ss(c.Pats), " "))
			}
			done <- struct{}{}
		}()
	}
	count := 0
	for _, a := range pats {
		for _, b := range pats {
			jobs <- job{[]Pat{a, b}}
			count++
		}
	}
	// triples over a reduced universe: one scheme, 6 hosts
	var red []Pat
	for _, p := range pats {
		if p.Scheme == "http" && (p.Host == "a" || p.Host == "ab" || p.Host == "b.a" || p.Host == "ab.a" || p.Host == "a.ab" || p.Host == "ba") {
			red = append(red, p)
		}
	}
	for _, a := range red {
		for _, b := range red {
			for _, c := range red {
				jobs <- job{[]Pat{a, b, c}}
				count++
			}
		}
	}
	close(jobs)
	for w := 0; w < workers; w++ {
		<-done
	}
	rec.mu.Lock()
	rec.cases = int64(count)
	rec.Exhaust = true
	rec.mu.Unlock()
	rec.AddSample(C01Ex{Pats: patStrings([]Pat{pats[3], pats[40]})})
	rec.AddSample(C01Ex{Pats: patStrings([]Pat{red[1], red[7], red[20]})})
	select {
	case f := <-fail:
		rec.violation++
		path := writeReplay("C01", "exhaustive", f.c, f.d)
		reportViolation("C01", path, f.d)
		t.FailNow()
	default:
	}
}
