package harness

import (
	"fmt"
	"net/http"
	"strings"
	"testing"

	"github.com/jub0bs/cors"
	"pgregory.net/rapid"
)

// C11: preflights are answered by the middleware alone; everything else
// passes through intact; a passthrough middleware is the identity.

type HdrOp struct {
	Op  string `json:"op"` // set | add | del
	Key string `json:"key"`
	Val Str    `json:"val,omitempty"`
}

type Script struct {
	Ops    []HdrOp `json:"ops,omitempty"`
	Status int     `json:"status,omitempty"` // 0 = never calls WriteHeader
	Body   Str     `json:"body,omitempty"`
}

// Overlap is a second request that is served, start to finish, by the same
// wrapped handler while the first request's inner handler is between its
// header operations and its WriteHeader: two requests in flight at once, in
// an order the harness owns.
type Overlap struct {
	Req    Req    `json:"req"`
	Script Script `json:"script"`
}

func (s Script) run(w http.ResponseWriter, r *http.Request) { s.runWith(w, r, nil) }

func (s Script) runWith(w http.ResponseWriter, _ *http.Request, between func()) {
	h := w.Header()
	applyOps(h, s.Ops)
	if between != nil {
		between()
	}
	if s.Status != 0 {
		w.WriteHeader(s.Status)
	}
	if s.Body != "" {
		w.Write([]byte(s.Body))
	}
}

func applyOps(h http.Header, ops []HdrOp) {
	for _, op := range ops {
		switch op.Op {
		case "set":
			h.Set(op.Key, string(op.Val))
		case "add":
			h.Add(op.Key, string(op.Val))
		case "del":
			h.Del(op.Key)
		}
	}
}

type C11Case struct {
	Cfg     *Cfg     `json:"cfg"` // nil = passthrough (zero value or Reconfigure(nil))
	ViaNil  bool     `json:"via_reconfigure_nil,omitempty"`
	Debug   bool     `json:"debug,omitempty"`
	Req     Req      `json:"req"`
	Preset  []HV     `json:"preset,omitempty"`
	Script  Script   `json:"script"`
	Overlap *Overlap `json:"overlap,omitempty"`
	// WrapEarly: the handler is wrapped while the middleware is still a zero value; the configuration
	// arrives afterwards through Reconfigure (a server that wires its routes first and configures CORS later).
	WrapEarly bool `json:"wrap_early,omitempty"`
}

func (c C11Case) Brief() any {
	return map[string]any{"cfg": c.Cfg, "via_reconfigure_nil": c.ViaNil, "debug": c.Debug, "req": c.Req.Brief(), "preset": c.Preset, "script": c.Script, "overlap": c.Overlap}
}

var scriptKeys = []string{"Vary", "Access-Control-Allow-Origin", "Access-Control-Allow-Credentials", "Access-Control-Expose-Headers", "Access-Control-Allow-Methods",
	"Content-Type", "X-App", "Set-Cookie", "vary", "access-control-allow-origin", "Access-Control-Max-Age", "X-Pre"}

func genPresence(t *rapid.T, label string, value func() Val) ([]Val, bool) {
	switch uniform(t, label+"_state", 5) {
	case 0:
		return nil, false // absent
	case 1:
		return nil, true // present with zero values
	case 2:
		return []Val{V("")}, true // present but empty
	case 3:
		return []Val{value(), value()}, true
	default:
		return []Val{value()}, true
	}
}

func c11Gen(t *rapid.T) C11Case {
	var c C11Case
	var p reqPools
	if chance(t, "passthrough", 25) {
		c.ViaNil = chance(t, "vianil", 50)
		p = poolsOf(Cfg{Origins: SS("https://example.com")})
	} else {
		cfg := genValidCfg(t)
		c.Cfg = &cfg
		c.Debug = chance(t, "debug", 40)
		c.WrapEarly = chance(t, "wrapearly", 30)
		p = poolsOf(cfg)
	}
	c.Req.Method = pick(t, "method", []string{"OPTIONS", "OPTIONS", "OPTIONS", "GET", "POST", "PUT", "options", "HEAD", "DELETE"})
	if vs, ok := genPresence(t, "origin", func() Val { return genOriginVal(t, p) }); ok {
		c.Req.Hdr = append(c.Req.Hdr, HV{hOrigin, vs})
	}
	if vs, ok := genPresence(t, "acrm", func() Val { return genACRMVal(t, p) }); ok {
		c.Req.Hdr = append(c.Req.Hdr, HV{hACRM, vs})
	}
	if chance(t, "acrh", 30) {
		c.Req.Hdr = append(c.Req.Hdr, HV{hACRH, genValList(t, "acrh", func() Val { return genACRHLine(t, p) })})
	}
	if chance(t, "acrpn", 20) {
		c.Req.Hdr = append(c.Req.Hdr, HV{hACRPN, Vals("true")})
	}
	genOtherHeaders(t, &c.Req)
	if chance(t, "target", 15) {
		c.Req.Target = pick(t, "targetv", []string{"*", "*", "/a/b?x=1", "/*"})
	}
	if chance(t, "proto", 10) {
		c.Req.Proto = pick(t, "protov", []string{"1.0", "2"})
	}
	genHostTLS(t, &c.Req)
	if chance(t, "body", 10) {
		// a message body neither makes nor unmakes a preflight
		c.Req.Body = pick(t, "bodyshape", []int{2, 17, 1000, -1, -1, -2})
	}
	// pre-set response headers from an outer wrapper
	for i, n := 0, uniform(t, "npreset", 4); i < n; i++ {
		k := pick(t, "presetkey", []string{"Vary", "Vary", "X-Pre", "Content-Type", "Access-Control-Allow-Origin", "Access-Control-Expose-Headers", "Set-Cookie", "X-Frame-Options"})
		if _, dup := (Req{Hdr: c.Preset}).Get(k); dup {
			continue
		}
		c.Preset = append(c.Preset, HV{k, genValList(t, "presetv", func() Val {
			if k == "Vary" {
				return V(pick(t, "pvary", presetVaryPool))
			}
			return V(pick(t, "pv", []string{"before", "Accept-Encoding", "https://outer.example", "a=b", "*", "X-One, X-Two"}))
		})})
	}
	// inner handler script
	for i, n := 0, uniform(t, "nops", 5); i < n; i++ {
		c.Script.Ops = append(c.Script.Ops, HdrOp{Op: pick(t, "op", []string{"set", "add", "add", "del"}), Key: pick(t, "opkey", scriptKeys),
			Val: Str(pick(t, "opval", []string{"app", "Origin", "https://app.example", "true", "X-Custom", ""}))})
	}
	c.Script.Status = pick(t, "status", []int{0, 0, 200, 201, 204, 301, 404, 403, 500, 599, 299})
	c.Script.Body = Str(pick(t, "body", []string{"", "", "hello", "{}", "\x00\xff"}))
	if chance(t, "overlap", 25) {
		o := &Overlap{Req: c.Req}
		if chance(t, "overlapreq", 40) {
			o.Req = genReq(t, p)
		}
		if chance(t, "overlapsame", 60) {
			// the same operations on the same names with other values: the two handlers touch the same slots
			for _, op := range c.Script.Ops {
				op.Val += "-2"
				o.Script.Ops = append(o.Script.Ops, op)
			}
		} else {
			for i, n := 0, uniform(t, "nops2", 5); i < n; i++ {
				o.Script.Ops = append(o.Script.Ops, HdrOp{Op: pick(t, "op2", []string{"set", "add", "add", "del"}), Key: pick(t, "opkey2", scriptKeys), Val: "other"})
			}
		}
		o.Script.Status = pick(t, "status2", []int{0, 200, 404})
		c.Overlap = o
	}
	return c
}

func headerMapsEqual(a, b map[string][]string) bool {
	if len(a) != len(b) {
		return false
	}
	for k, va := range a {
		vb, ok := b[k]
		if !ok || !eqStrs(va, vb) {
			return false
		}
	}
	return true
}

func c11Check(c C11Case, rec *Recorder) *Disc {
	var m *cors.Middleware
	configured := c.Cfg != nil
	var early *Server
	if configured && c.WrapEarly {
		m = new(cors.Middleware)
		early = NewServer(m.Wrap) // wrapped while passthrough
		cfg := c.Cfg.Cors()
		if err := m.Reconfigure(&cfg); err != nil {
			rec.Class("rejected-config")
			return nil
		}
		m.SetDebug(c.Debug)
		rec.Class("wrapped-before-configured")
	} else if configured {
		var err error
		m, err = mkMW(*c.Cfg, c.Debug)
		if err != nil {
			rec.Class("rejected-config")
			return nil
		}
	} else if c.ViaNil {
		m, _ = cors.NewMiddleware(cors.Config{Origins: []string{"https://example.com"}, Credentialed: true})
		m.SetDebug(true)
		if err := m.Reconfigure(nil); err != nil {
			return discf("Reconfigure(nil) failed: %v", err)
		}
	} else {
		m = new(cors.Middleware)
	}
	srv := NewServer(m.Wrap)
	if early != nil {
		srv = early
	}
	run := c.Script.run
	var inner *Resp
	if c.Overlap != nil {
		rec.Class("with-overlapping-request")
		run = func(w http.ResponseWriter, r *http.Request) {
			c.Script.runWith(w, r, func() {
				x := DoScript(srv.Wrap, c.Overlap.Req, nil, c.Overlap.Script.run)
				inner = &x
			})
		}
	}
	resp := DoScript(srv.Wrap, c.Req, c.Preset, run)
	rec.Eval(1)
	if inner != nil && inner.Called == 1 {
		// the overlapping request's own handler output reaches its client too
		want := cloneHeader(inner.Entry)
		applyOps(want, c.Overlap.Script.Ops)
		if !headerMapsEqual(inner.Hdr, want) {
			return discf("cfg %+v debug=%v: request {%s} served while {%s} was in flight: its handler's headers did not reach the client unchanged: want %s got %s", c.Cfg, c.Debug, c.Overlap.Req.Brief(), c.Req.Brief(), abbrev(hdrSig(want), 400), abbrev(hdrSig(inner.Hdr), 400))
		}
	}
	preset := NewRec(c.Preset).H
	where := fmt.Sprintf("cfg %+v debug=%v request {%s} preset %v script %+v overlap %+v -> status %d called=%d headers %s", c.Cfg, c.Debug, c.Req.Brief(), c.Preset, c.Script, c.Overlap, resp.Status, resp.Called, abbrev(hdrSig(resp.Hdr), 500))

	vo, hasO := c.Req.Get(hOrigin)
	vm, hasM := c.Req.Get(hACRM)
	predicted := configured && c.Req.Method == "OPTIONS" && hasO && len(vo) > 0 && hasM && len(vm) > 0
	boundary := c.Req.Method == "OPTIONS" && ((hasO && (len(vo) == 0 || vo[0].String() == "")) || (hasM && (len(vm) == 0 || vm[0].String() == ""))) ||
		(c.Req.Method != "OPTIONS" && hasM && hasO)
	touches := false
	for _, op := range c.Script.Ops {
		k := http.CanonicalHeaderKey(op.Key)
		if k == hVary || strings.HasPrefix(k, "Access-Control-") {
			touches = true
		}
	}
	if boundary || touches {
		rec.NonTrivialHash(h64(where))
	}
	if predicted {
		rec.Class("preflight")
		if resp.Called != 0 {
			return discf("CORS-preflight request reached the wrapped handler (%d calls): %s", resp.Called, where)
		}
		if resp.Body != "" {
			return discf("preflight response has a body: %s", where)
		}
		for k, v := range preset {
			if k == hVary {
				got := resp.Hdr[hVary]
				if !varyKept(v, got) {
					return discf("preflight: pre-set Vary %q not preserved as prefix of %q: %s", v, got, where)
				}
				continue
			}
			if strings.HasPrefix(k, "Access-Control-") {
				continue
			}
			if !eqStrs(resp.Hdr[k], v) {
				return discf("preflight: pre-set header %s changed from %q to %q: %s", k, v, resp.Hdr[k], where)
			}
		}
		return nil
	}
	if configured {
		rec.Class("configured-non-preflight")
	} else {
		rec.Class("passthrough")
	}
	if resp.Called != 1 {
		return discf("non-preflight request: wrapped handler invoked %d times instead of exactly once: %s", resp.Called, where)
	}
	if !resp.SameReq || !resp.SameW {
		return discf("wrapped handler did not receive the very same request (%v) and writer (%v): %s", resp.SameReq, resp.SameW, where)
	}
	// ... and that request is as the client sent it: header map (every field line), method, target, protocol, host
	sent := c.Req.HTTP()
	if !headerMapsEqual(resp.ReqHdr, sent.Header) || resp.ReqLine != reqLine(sent) {
		return discf("the request the wrapped handler received differs from the one that was sent: got %s %s, sent %s %s: %s", resp.ReqLine, abbrev(hdrSig(resp.ReqHdr), 400), reqLine(sent), abbrev(hdrSig(sent.Header), 400), where)
	}
	// header map at handler entry
	if !configured {
		if !headerMapsEqual(resp.Entry, preset) {
			return discf("passthrough middleware changed the response headers before the handler ran: entry %s, pre-set %s: %s", hdrSig(resp.Entry), hdrSig(preset), where)
		}
	} else {
		for k, v := range preset {
			got := resp.Entry[k]
			switch k {
			case hVary:
				if !varyKept(v, got) {
					return discf("pre-set Vary %q is not a prefix of Vary at handler entry %q: %s", v, got, where)
				}
			case hACAO, hACAC, hACEH:
				// may be set (overwritten) by the middleware, never deleted
				if _, still := resp.Entry[k]; !still {
					return discf("pre-set header %s was deleted before the handler ran (the middleware may set it, not remove it): %s", k, where)
				}
				// "sets": where the middleware sets the field, what was there before does not matter; where it does not,
				// the field stays as it was. The same request without that pre-set field tells which of the two applies.
				var without []HV
				for _, kv := range c.Preset {
					if http.CanonicalHeaderKey(kv.Key) != k {
						without = append(without, kv)
					}
				}
				ref := DoScript(NewServer(m.Wrap).Wrap, c.Req, without, c.Script.run)
				want := v
				if rv, set := ref.Entry[k]; set {
					want = rv
				}
				if !eqStrs(got, want) {
					return discf("pre-set header %s %q: at handler entry it is %q; the middleware %s, so it should be %q: %s", k, v, got,
						map[bool]string{true: "sets this field for this request", false: "does not set this field for this request"}[len(ref.Entry[k]) > 0], want, where)
				}
			default:
				if !eqStrs(got, v) {
					return discf("pre-set header %s changed from %q to %q before the handler ran: %s", k, v, got, where)
				}
			}
		}
		for k := range resp.Entry {
			if _, ok := preset[k]; ok {
				continue
			}
			switch k {
			case hVary, hACAO, hACAC, hACEH:
			default:
				return discf("middleware added header %s (only Vary, ACAO, ACAC, ACEH are allowed on non-preflight responses): %s", k, where)
			}
		}
	}
	// final response == entry snapshot + the handler's own operations
	want := cloneHeader(resp.Entry)
	applyOps(want, c.Script.Ops)
	wantStatus := c.Script.Status
	if wantStatus == 0 {
		wantStatus = 200
	}
	if resp.Status != wantStatus || resp.Body != string(c.Script.Body) || !headerMapsEqual(resp.Hdr, want) {
		return discf("the handler's status/body/headers did not reach the client unchanged: want status %d body %q headers %s: %s", wantStatus, string(c.Script.Body), abbrev(hdrSig(want), 500), where)
	}
	return nil
}

func TestC11(t *testing.T) {
	Prop[C11Case]{ID: "C11", Gen: c11Gen, Check: c11Check,
		Rule: "generator: configured (any valid configuration, both debug modes; in 30% of these cases the handler is wrapped while the middleware is still a zero value and the configuration arrives afterwards through Reconfigure) or passthrough (zero value / Reconfigure(nil) after debug) middleware x method x Origin and ACRM each in {absent, present with zero values, empty string, one value, two values} x ACRH/ACRPN x (10%) a message body (a few bytes, 1 KB, unknown length, explicit NoBody) " +
			"x inner-handler script (header Set/Add/Del on names incl. Vary and Access-Control-*, status none/2xx-5xx, body) x pre-set response headers from an outer wrapper x (25%) a second request served start to finish by the same wrapped handler while the first handler is between its header operations and its WriteHeader (two requests in flight, order owned by the harness; usually the same operations with other values). Oracle: predicate 'configured and OPTIONS and >=1 Origin value and >=1 ACRM value' decides: " +
			"handler never invoked + empty body + pre-set headers kept, or invoked exactly once with the very same request (same pointer, and header map / method / target / protocol / host as sent) and writer, header map at entry = pre-set (+Vary suffix, ACAO/ACAC/ACEH), final response = entry + the handler's own operations; passthrough: entry == pre-set exactly. " +
			"non-trivial = boundary of the predicate (OPTIONS with zero-valued or empty Origin/ACRM; non-OPTIONS carrying both) or a handler touching Vary/CORS names; distinct by full case.",
		Assumptions: []string{"the recorder freezes headers at the first WriteHeader/Write like net/http does; inner handlers use statuses 200-599 only"}}.Run(t)
}
