package harness

import (
	"fmt"
	"sort"
	"strings"
	"testing"

	"github.com/jub0bs/cors"
	"pgregory.net/rapid"
)

// C14: requested-header lists: sound for any bytes, complete for browsers.

type C14Case struct {
	Names []Str  `json:"allowed_names"` // as configured (any case, any order, duplicates)
	Lines []Val  `json:"acrh_lines"`
	Note  string `json:"note,omitempty"`
	// Around: what surrounds the header list and has no say in whether it is approved - the other switches of the
	// configuration and the other features of the preflight (0 = the plain case). Bits: 1 credentialed, 2 PNA,
	// 4 PNA in no-cors mode only (2 and 4 never together), 8 debug-independent extras in the configuration (methods,
	// exposed headers, max-age, status 200), 16 the request says ACRPN: true, 32 ACRPN: false, 64 the requested method
	// is PUT (listed when bit 8 is set), 128 the request carries unrelated headers and a body.
	Around int `json:"around,omitempty"`
}

func isOWSb(b byte) bool { return b == ' ' || b == '\t' }

// trim1 removes at most one OWS byte per side. ok is false when more
// whitespace than that surrounds the element; a whitespace-only element of at
// most two bytes (one per side) is the empty element.
func trim1(el string) (core string, ok bool) {
	all := true
	for i := 0; i < len(el); i++ {
		if !isOWSb(el[i]) {
			all = false
			break
		}
	}
	if all {
		return "", len(el) <= 2
	}
	if isOWSb(el[0]) {
		el = el[1:]
	}
	if isOWSb(el[len(el)-1]) {
		el = el[:len(el)-1]
	}
	if isOWSb(el[0]) || isOWSb(el[len(el)-1]) {
		return "", false
	}
	return el, true
}

// acrhApproved is the reference reader of C14's statement.
func acrhApproved(allowedSorted []string, lines []string) bool {
	pos, empties := -1, 0
	for _, line := range lines {
		for _, el := range strings.Split(line, ",") {
			core, ok := trim1(el)
			if !ok {
				return false
			}
			if core == "" {
				empties++
				if empties > 16 {
					return false
				}
				continue
			}
			i := sort.SearchStrings(allowedSorted, core)
			if i >= len(allowedSorted) || allowedSorted[i] != core || i <= pos {
				return false
			}
			pos = i
		}
	}
	return true
}

var c14NamePool = []string{"a", "ab", "abc", "b", "x-a", "x-ab", "x-abc", "x-b", "foo", "foo-bar", "x-foo", "authorization", "content-type", "zzzzzzzzzzzzzzzzzzzz",
	"x", "accept", "x-requested-with", "a-", "a-b", "a0", "a!", "b~",
	"x-trace-id", "x-request-id", "x-api-key", "x-csrf-token", "if-none-match", "if-match", "range", "x-a-b", "x-aa", "x-ab-c", "x-b-a", "x-c", "x-d", "x-e", "x-f", "x-g", "x-h", "x-i",
	strings.Repeat("n", 63), strings.Repeat("n", 64), "x-" + strings.Repeat("long-", 13), strings.Repeat("q", 128), "b-" + strings.Repeat("huge-", 60), strings.Repeat("m", 255), strings.Repeat("m", 256), "c" + strings.Repeat("w", 257), "x-j", "x-k", "x-l", "x-m", "x-n", "x-o", "x-p", "x-q", "x-r", "x-s", "x-t", "x-u", "x-v", "x-w", "x-x", "x-y", "x-z", "y", "y-a", "z", "z-a", "accept-language", "content-language",
	// every kind of token byte that is not a letter, a digit or a hyphen
	"x_csrf_token", "x_forwarded_for", "x-trace_id", "a_b", "_", "x^y", "x.y", "x+y", "a#b", "$x", "%x", "&x", "'x", "x*y", "x|y", "x`y", "~", "9", "0-a", "x!"}

func normNames(names []Str) []string {
	set := map[string]bool{}
	for _, n := range names {
		set[lower(string(n))] = true
	}
	out := make([]string, 0, len(set))
	for n := range set {
		out = append(out, n)
	}
	sort.Strings(out)
	return out
}

func genOWS(t *rapid.T, label string) string {
	switch k := uniform(t, label, 100); {
	case k < 60:
		return ""
	case k < 85:
		return pick(t, label+"1", []string{" ", "\t"})
	case k < 95:
		return pick(t, label+"2", []string{"  ", " \t", "\t\t"})
	default:
		return "   "
	}
}

func genOWS1(t *rapid.T, label string) string {
	return pick(t, label, []string{"", "", "", " ", "\t"})
}

func c14Gen(t *rapid.T) C14Case {
	var c C14Case
	n := pick(t, "nnamesmax", []int{2, 4, 8, 8, 12, 20, 40})
	n = intIn(t, "nnames", 1, n)
	for i := 0; i < n; i++ {
		nm := pick(t, "name", c14NamePool)
		if chance(t, "tokenname", 12) {
			nm = genTokenName(t, "req") // straight from the token grammar, any letter case
		}
		switch k := uniform(t, "case", 100); {
		case k < 25:
			nm = strings.ToUpper(nm[:1]) + nm[1:]
		case k < 35:
			nm = strings.ToUpper(nm)
		case k < 55:
			// header names are case-insensitive in the configuration: any subset of the letters in upper case
			b := []byte(nm)
			for j := range b {
				if 'a' <= b[j] && b[j] <= 'z' && chance(t, "upper", 40) {
					b[j] -= 32
				}
			}
			nm = string(b)
		}
		c.Names = append(c.Names, Str(nm))
	}
	if chance(t, "manynames", 5) {
		// a long allow-list: counts around 32, 64, 128 and 256 names
		for i, m := 0, pick(t, "nmany", []int{30, 33, 62, 64, 66, 100, 126, 130, 256}); i < m; i++ {
			c.Names = append(c.Names, Str(fmt.Sprintf("w-%03d", (i*41)%m)))
		}
	}
	if chance(t, "around", 30) {
		c.Around = uniform(t, "aroundbits", 256)
	}
	allowed := normNames(c.Names)
	maxLen := 0
	for _, a := range allowed {
		if len(a) > maxLen {
			maxLen = len(a)
		}
	}
	var els []string
	validMode := chance(t, "validmode", 55)
	if validMode {
		// an increasing walk over the allowed names with tolerated noise
		empties := 0
		for _, a := range allowed {
			if chance(t, "take", 65) {
				els = append(els, genOWS1(t, "l")+a+genOWS1(t, "r"))
			}
			if empties < 14 && chance(t, "empty", 15) {
				k := intIn(t, "nempty", 1, 3)
				for j := 0; j < k && empties < 14; j++ {
					els = append(els, pick(t, "emptyel", []string{"", "", " ", "\t", "  "}))
					empties++
				}
			}
		}
		c.Note = "valid-walk"
		if chance(t, "mutate", 45) && len(els) > 0 {
			i := uniform(t, "mutpos", len(els))
			switch uniform(t, "mutkind", 13) {
			case 12: // an ASCII letter replaced by a non-ASCII letter that case mapping/folding sends back to it
				if u, ok := unifold(t, els[i]); ok {
					els[i] = u
					c.Note = "unicode-fold-letter"
				}
			case 0: // 17 empties in total
				for empties < 17 {
					els = append(els[:i:i], append([]string{""}, els[i:]...)...)
					empties++
				}
				c.Note = "exactly-17-empties"
			case 1: // exactly 16 empties (still fine)
				for empties < 16 {
					els = append(els[:i:i], append([]string{""}, els[i:]...)...)
					empties++
				}
				c.Note = "exactly-16-empties"
			case 2:
				els[i] = "  " + strings.TrimLeft(els[i], " \t")
				c.Note = "two-ows-left"
			case 3:
				els[i] = strings.TrimRight(els[i], " \t") + " \t"
				c.Note = "two-ows-right"
			case 4:
				els[i] = "   "
				c.Note = "three-byte-whitespace-element"
			case 5: // duplicate an element
				els = append(els[:i+1:i+1], els[i:]...)
				c.Note = "duplicate"
			case 6: // swap two neighbours
				if i+1 < len(els) {
					els[i], els[i+1] = els[i+1], els[i]
				}
				c.Note = "swapped"
			case 7: // an element one byte over the window
				els[i] = strings.Repeat("a", maxLen+1)
				c.Note = "one-byte-over-longest-name"
			case 8:
				els[i] = strings.ToUpper(els[i])
				c.Note = "upper-case-element"
			default:
				// one arbitrary byte (anything but SP, HTAB and comma) glued to an edge of the element
				b := byte(rapid.IntRange(0, 255).Draw(t, "edgebyte"))
				if chance(t, "edgebyteuniform", 70) {
					b = byte(uniform(t, "edgebyteu", 256))
				}
				if b == ' ' || b == '\t' || b == ',' {
					b = '`'
				}
				core := strings.Trim(els[i], " \t")
				if chance(t, "edgeleft", 50) {
					els[i] = string([]byte{b}) + core
				} else {
					els[i] = core + string([]byte{b})
				}
				c.Note = "arbitrary-byte-at-element-edge"
			}
		}
	} else {
		k := intIn(t, "nels", 0, 10)
		for i := 0; i < k; i++ {
			var e string
			switch j := uniform(t, "elkind", 100); {
			case j < 35:
				e = pick(t, "allowedel", allowed)
			case j < 50:
				a := pick(t, "var", allowed)
				e = pick(t, "variant", []string{a + "x", a[:len(a)-1], strings.ToUpper(a), a + "-", "x" + a})
			case j < 62:
				e = strings.Repeat(",", uniform(t, "run", 21)) // run of empties
			case j < 74:
				l := maxLen + intIn(t, "edge", -1, 4)
				if l < 0 {
					l = 0
				}
				e = strings.Repeat(pick(t, "edgebyte", []string{"a", " ", "z", "\t"}), l)
			default:
				const junk = "abx-, \t\x00I`\x89\xa0\xc9\xe0~\x7f\x0b\x0c\r\n"
				m := uniform(t, "junklen", 8)
				b := make([]byte, m)
				for q := range b {
					b[q] = junk[uniform(t, "junkb", len(junk))]
				}
				e = string(b)
			}
			els = append(els, genOWS(t, "lo")+e+genOWS(t, "ro"))
		}
		c.Note = "free-form"
	}
	// distribute the elements over 1-4 field lines (incl. empty lines)
	nl := intIn(t, "nlines", 1, 4)
	if len(els) == 0 {
		nl = uniform(t, "nlines0", 3)
	}
	lines := make([][]string, nl)
	if nl > 0 {
		cuts := make([]int, len(els))
		cur := 0
		for i := range els {
			if cur < nl-1 && chance(t, "cut", 25) {
				cur++
			}
			cuts[i] = cur
		}
		for i, e := range els {
			lines[cuts[i]] = append(lines[cuts[i]], e)
		}
	}
	for _, l := range lines {
		c.Lines = append(c.Lines, V(strings.Join(l, ",")))
	}
	return c
}

func c14Check(c C14Case, rec *Recorder) *Disc {
	cfg := Cfg{Origins: SS("https://example.com"), RequestHeaders: c.Names}
	a := c.Around
	if a&2 != 0 && a&4 != 0 {
		a &^= 4
	}
	cfg.Credentialed, cfg.PNA, cfg.PNANoCORS = a&1 != 0, a&2 != 0, a&4 != 0
	if a&8 != 0 {
		cfg.Methods, cfg.ResponseHeaders, cfg.MaxAge, cfg.Status = SS("PUT", "PATCH"), SS("X-Exposed"), 600, 200
	}
	okStatus := 204
	if cfg.Status != 0 {
		okStatus = cfg.Status
	}
	method := "GET"
	if a&64 != 0 && a&8 != 0 {
		method = "PUT"
	}
	// the steps before the header list: a private-network request is granted only under a PNA mode
	stepsBeforeOK := a&16 == 0 || cfg.PNA || cfg.PNANoCORS
	extra := func(hs []HV) []HV {
		if a&16 != 0 {
			hs = append(hs, HV{hACRPN, Vals("true")})
		} else if a&32 != 0 {
			hs = append(hs, HV{hACRPN, Vals("false")})
		}
		if a&128 != 0 {
			hs = append(hs, HV{"User-Agent", Vals("x")}, HV{"Sec-Fetch-Mode", Vals("cors")}, HV{"Accept", Vals("*/*")})
		}
		return hs
	}
	if a != 0 {
		rec.Class("with-surroundings")
	}
	m, err := cors.NewMiddleware(cfg.Cors())
	if err != nil {
		rec.Class("rejected-config")
		return nil
	}
	allowed := normNames(c.Names)
	lines := Strs(c.Lines)
	req := Req{Method: "OPTIONS"}
	if a&128 != 0 {
		req.Body = 17
	}
	wrap := oneWrap(m.Wrap)
	// judge serves one preflight carrying the given field lines and compares with the reference reader
	judge := func(ls []Val, when string) (bool, *Disc) {
		lines := Strs(ls)
		r := req
		r.Hdr = extra([]HV{{hOrigin, Vals("https://example.com")}, {hACRM, Vals(method)}, {hACRH, ls}})
		resp := Do(wrap, r, nil)
		rec.Eval(1)
		var got bool
		switch {
		case resp.Status == okStatus && eq1(resp.Hdr[hACAO], "https://example.com"):
			got = true
		case len(resp.Hdr[hACAO]) == 0 && (resp.Status < 200 || resp.Status > 299): // refused; the status of a refusal is not documented
		default:
			return false, discf("allowed %q lines %q (%s): odd preflight response %s", allowed, lines, when, abbrev(resp.Sig(), 300))
		}
		want := acrhApproved(allowed, lines) && stepsBeforeOK
		if got != want {
			return false, discf("allowed names %q, ACRH field lines %q (%s): reference reader says approved=%v, middleware says %v (%s)", allowed, lines, when, want, got, c.Note)
		}
		if got && !sameTokens(resp.Hdr[hACAH], lines) {
			return false, discf("allowed %q lines %q (%s): approved but ACAH %q does not list exactly the requested names", allowed, lines, when, resp.Hdr[hACAH])
		}
		return got, nil
	}
	// the reader has no memory: each field line on its own first (same wrapped handler), then all of them
	// together, then once more
	if len(c.Lines) >= 2 {
		rec.Class("lines-individually-first")
		for i := range c.Lines {
			if _, d := judge(c.Lines[i:i+1], fmt.Sprintf("line %d alone, before the full request", i)); d != nil {
				return d
			}
		}
	}
	got, d := judge(c.Lines, "all lines")
	if d != nil {
		return d
	}
	if _, d := judge(c.Lines, "all lines, second time"); d != nil {
		return d
	}
	// classification
	names := 0
	padded := false
	for _, l := range lines {
		for _, el := range strings.Split(l, ",") {
			if core, ok := trim1(el); ok && core != "" {
				names++
				if core != el {
					padded = true
				}
			}
		}
	}
	if got {
		rec.Class("approved")
		if names >= 2 || padded || len(lines) > 1 || strings.Contains(strings.Join(lines, ","), ",,") {
			rec.NonTrivial("ok", strings.Join(allowed, ","), strings.Join(lines, "\n"))
		}
	} else {
		rec.Class("rejected")
		switch c.Note {
		case "exactly-17-empties", "two-ows-left", "two-ows-right", "three-byte-whitespace-element", "duplicate", "swapped", "one-byte-over-longest-name", "arbitrary-byte-at-element-edge", "unicode-fold-letter":
			rec.NonTrivial("no", strings.Join(allowed, ","), strings.Join(lines, "\n"))
		}
	}
	rec.Class("note:" + c.Note)
	// corollary: what a browser emits for any subset of the allowed names is approved
	var sub []string
	for i, a := range allowed {
		if (len(lines)+i)%2 == 0 {
			sub = append(sub, a)
		}
	}
	if len(sub) > 0 {
		for _, variant := range [][]string{{strings.Join(sub, ",")}, sub, {strings.Join(sub, ", ")}} {
			r := Do(wrap, Preflight("https://example.com", "GET", variant...), nil)
			rec.Eval(1)
			if r.Status != okStatus || !sameTokens(r.Hdr[hACAH], variant) {
				return discf("allowed %q: browser-shaped list %q is not approved (status %d, ACAH %q)", allowed, variant, r.Status, r.Hdr[hACAH])
			}
		}
	}
	return nil
}

func c14Prop() Prop[C14Case] {
	return Prop[C14Case]{ID: "C14", Gen: c14Gen, Check: c14Check,
		Rule: "generator: allowed-name sets of 1-40 names (5%: 30-300 names) (prefixes/extensions of each other, mixed case in the configuration) x 0-4 ACRH field lines: 55% an increasing walk over the allowed names with <=1 OWS per side and <=14 empty elements, " +
			"of which 45% get exactly one boundary mutation (17th / 16th empty element, 2 OWS on one side, 3-byte whitespace element, duplicate, swapped neighbours, element one byte over the longest name, upper case, one arbitrary byte 0x00-0xFF glued to an edge of an element, one letter replaced by Kelvin sign / dotted I / long s); 45% free-form elements " +
			"(allowed names unsorted/repeated, prefix/extension/upper-case variants, runs of 0-20 empties, elements of length maxNameLen-1..+4 of name bytes or OWS, junk over {a b x - , SP HTAB NUL}) each with 0-3 OWS per side. " +
			"30% of the cases put the list into surroundings that have no say in its approval: credentialed / PNA / no-cors-only PNA configurations, methods, exposed headers, max-age and status 200, a request that says ACRPN true or false, asks for PUT, carries unrelated headers and a body. Oracle: debug-off preflight approved (success status + ACAH echo) iff the reference list reader approves (and the steps before the header list let the request through) - for each field line served alone first, then for all lines together, twice, all through one wrapped handler (the reader has no memory); browser-shaped sublists (joined, one per line, comma-space) always approved. " +
			"non-trivial = approved with >=2 names / padding / several lines / empties, or rejected solely because of one planted boundary mutation; distinct by (allowed set, lines).",
		Assumptions: []string{"checked through the public API: a debug-off preflight from an allowed origin with a safelisted method is approved iff it is answered 204 with ACAO, refused iff it carries no ACAO and a non-2xx status"}}
}

func TestC14(t *testing.T) { c14Prop().Run(t) }

func FuzzC14(f *testing.F) { FuzzProp(f, c14Prop()) }

// sameTokens reports whether two lists of field lines name the same set of
// non-empty tokens (OWS trimmed); how they are spread over lines is not pinned.
func sameTokens(a, b []string) bool {
	set := func(lines []string) map[string]bool {
		out := map[string]bool{}
		for _, l := range lines {
			for _, el := range strings.Split(l, ",") {
				if t := strings.Trim(el, " \t"); t != "" {
					out[t] = true
				}
			}
		}
		return out
	}
	x, y := set(a), set(b)
	if len(x) != len(y) {
		return false
	}
	for t := range x {
		if !y[t] {
			return false
		}
	}
	return true
}
