package harness

import (
	"fmt"
	"math/big"
	"net/netip"
	"strings"

	"pgregory.net/rapid"
)

// ---------------------------------------------------------------------------
// arbitrary requests, biased towards the configuration under test

var reqMethods = []string{"GET", "HEAD", "POST", "PUT", "DELETE", "PATCH", "OPTIONS", "OPTIONS", "OPTIONS", "OPTIONS", "options", "Options", "FOO", "", "OPTIONS ", "TRACE"}

// malformOrigin applies one of the documented malformations to a (usually
// allowed) origin.
func malformOrigin(t *rapid.T, o string) Val {
	sch, rest, _ := strings.Cut(o, "://")
	host, port := rest, ""
	if i := strings.LastIndexByte(rest, ':'); i >= 0 && !strings.HasSuffix(rest, "]") {
		host, port = rest[:i], rest[i+1:]
	}
	withPort := func(p string) string { return sch + "://" + host + ":" + p }
	if ip, err := netip.ParseAddr(strings.TrimSuffix(strings.TrimPrefix(host, "["), "]")); err == nil && chance(t, "respellip", 35) {
		// the same address spelled differently: not the listed origin (hosts are compared byte for byte)
		return V(sch + "://" + respellIP(t, ip) + orStr2(port))
	}
	if len(host) <= 56 && !strings.HasPrefix(host, "[") && chance(t, "padded", 6) {
		// the listed host as the tail or the head of a very long one (padding lengths and total lengths around 2^8)
		k := pick(t, "padlen", []int{256, 256, 255, 257, 128, 250})
		if chance(t, "padtotal", 40) {
			k -= len(host)
		}
		if chance(t, "padafter", 50) && !strings.HasSuffix(host, ".") {
			return V(sch + "://" + host + padLabelsAfter(k) + orStr2(port))
		}
		return V(sch + "://" + padLabels(k) + host + orStr2(port))
	}
	switch uniform(t, "malform", 49) {
	case 45, 46, 47, 48:
		return V(hostileByteOrigin(t, o))
	case 42, 43, 44:
		// one ASCII letter replaced by a non-ASCII letter that Unicode case mapping/folding sends back to it
		if u, ok := unifold(t, o); ok {
			return V(u)
		}
		return V(strings.ToUpper(o))
	case 0:
		return V(strings.ToUpper(o))
	case 1:
		return V(sch + "://user@" + rest)
	case 2:
		return V(o + "/")
	case 3:
		return V(o + "/path")
	case 4:
		return V(o + "?q=1")
	case 5:
		return V(o + "#f")
	case 6:
		if port == "" {
			return V(sch + "://[" + host + "]")
		}
		return V(sch + "://[" + host + "]:" + port)
	case 7:
		return V(sch + "://[" + rest)
	case 8:
		return V(withPort("0" + orStr(port, "8080")))
	case 9:
		return V(withPort("100000"))
	case 10:
		return V(withPort("0"))
	case 11:
		return V(withPort("65536"))
	case 12:
		return V(o + "\x00")
	case 13:
		return V(strings.Replace(o, "://", "://\xc3\xa9", 1))
	case 14:
		return V("null")
	case 15:
		return V("")
	case 16:
		return V(" " + o)
	case 17:
		return V(o + " ")
	case 18:
		return V(o + ":")
	case 19:
		return V(strings.Replace(o, ".", "..", 1))
	case 20:
		return V(sch + "://." + rest)
	case 21:
		return V(sch + ":" + rest)
	case 22:
		return V(sch + "//" + rest)
	case 23:
		return V(o + "," + o)
	case 24:
		return V(o + ", " + o)
	case 25:
		// longer than any limit
		return Val{S: Str(sch + "://"), Rep: 1, Tail: Str(strings.Repeat("a.", 200) + rest)}
	case 26:
		n := pick(t, "biglen", []int{1 << 10, 1 << 16, 1 << 20})
		return Val{S: "a", Rep: n, Tail: Str("." + rest)}
	case 27:
		return V(strings.Title(sch) + "://" + rest)
	case 28:
		return V(withPort(orStr(port, "8080") + "0"))
	case 29:
		return V(sch + "://" + host + ":+" + orStr(port, "8080"))
	case 30:
		return V(o + "\t")
	case 31:
		return V(sch + "://" + rest + ".")
	case 32:
		return V("*")
	case 38, 39, 40, 41:
		// a separator or other stray byte INSIDE a short port (short so that it stays within every length cap)
		pp := pick(t, "shortport", []string{"1", "44", "8", "80", "443", orStr(port, "90")})
		k := uniform(t, "strayidx", len(pp)+1)
		stray := pick(t, "stray", []string{":", ":", ";", "/", ".", "-", "x", "\x3a"})
		return V(withPort(pp[:k] + stray + pp[k:]))
	case 34, 35, 36, 37:
		// a port that is congruent to the listed one (or to "no port") modulo 2^16, 2^32, 2^63 or 2^64
		base := new(big.Int)
		base.SetString(orStr(port, "0"), 10)
		wrap := new(big.Int).Lsh(big.NewInt(1), uint(pick(t, "wrapbits", []int{16, 32, 63, 64, 64, 65})))
		return V(withPort(base.Add(base, wrap).String()))
	default:
		return V(sch + "://" + strings.ToUpper(host[:1]) + host[1:] + orStr2(port))
	}
}

// hostileByteOrigin puts a byte that no host may contain (mostly >= 0x80) where the first byte of the host is, or in
// front of it - inside brackets (whose content the request-side parser takes as it comes) or not. Such an origin
// shares all but its first host byte with a listed one, so a lookup gets as far as the place where listed hosts
// branch out and meets the odd byte there.
func hostileByteOrigin(t *rapid.T, o string) string {
	sch, rest, _ := strings.Cut(o, "://")
	host, port := rest, ""
	if i := strings.LastIndexByte(rest, ':'); i >= 0 && !strings.HasSuffix(rest, "]") {
		host, port = rest[:i], rest[i+1:]
	}
	host = strings.TrimSuffix(strings.TrimPrefix(host, "["), "]")
	if host == "" {
		host = "a"
	}
	hb := string([]byte{pick(t, "hostilebyte", []byte{0x80, 0xff, 0xff, 0xe9, 0x7f, 0x00, 0xc3, 0xfe, 0x81, 0xbf, '[', ']', '*', byte(128 + uniform(t, "hostilehigh", 128))})})
	var h string
	switch uniform(t, "hostilepos", 4) {
	case 0:
		h = hb + host[1:]
	case 1:
		h = hb + host
	case 2:
		h = hb + "." + host
	default:
		h = host[:len(host)-1] + hb
	}
	if chance(t, "hostilebracket", 70) {
		h = "[" + h + "]"
	}
	return sch + "://" + h + orStr2(port)
}

// respellIP returns another textual form of the same IP address (or of the address it embeds / is embedded in).
func respellIP(t *rapid.T, ip netip.Addr) string {
	return pick(t, "ipform", ipRespellings(ip))
}

// ipRespellings lists other textual forms of the same IP address (or of the address it embeds / is embedded in):
// none of them is the canonical form, so none of them is the host of a listed pattern.
func ipRespellings(ip netip.Addr) []string {
	if ip.Is4() {
		b := ip.As4()
		u := uint32(b[0])<<24 | uint32(b[1])<<16 | uint32(b[2])<<8 | uint32(b[3])
		hi, lo := u>>16, u&0xffff
		return []string{
			fmt.Sprintf("[::ffff:%d.%d.%d.%d]", b[0], b[1], b[2], b[3]),
			fmt.Sprintf("[::ffff:%x:%x]", hi, lo),
			fmt.Sprintf("[0:0:0:0:0:ffff:%x:%x]", hi, lo),
			fmt.Sprintf("[::%d.%d.%d.%d]", b[0], b[1], b[2], b[3]),
			fmt.Sprintf("[::%x:%x]", hi, lo),
			fmt.Sprintf("%d", u),
			fmt.Sprintf("0x%x", u),
			fmt.Sprintf("0x%x.0x%x.0x%x.0x%x", b[0], b[1], b[2], b[3]),
			fmt.Sprintf("0%o.%d.%d.%d", b[0], b[1], b[2], b[3]),
			fmt.Sprintf("%d.%d.%d", b[0], b[1], uint32(b[2])<<8|uint32(b[3])),
			fmt.Sprintf("%d.%d", b[0], u&0xffffff),
			fmt.Sprintf("%d.%d.%d.%d.", b[0], b[1], b[2], b[3]),
			fmt.Sprintf("%d.%d.%d.0%d", b[0], b[1], b[2], b[3]),
			fmt.Sprintf("%03d.%d.%d.%d", b[0], b[1], b[2], b[3]),
		}
	}
	b := ip.As16()
	h := func(i int) uint16 { return uint16(b[2*i])<<8 | uint16(b[2*i+1]) }
	forms := []string{
		"[" + ip.StringExpanded() + "]",
		"[" + strings.ToUpper(ip.StringExpanded()) + "]",
		fmt.Sprintf("[%x:%x:%x:%x:%x:%x:%x:%x]", h(0), h(1), h(2), h(3), h(4), h(5), h(6), h(7)),
		fmt.Sprintf("[%x:%x:%x:%x:%x:%x:%d.%d.%d.%d]", h(0), h(1), h(2), h(3), h(4), h(5), b[12], b[13], b[14], b[15]),
		"[" + ip.String() + "%eth0]",
		"[" + ip.String() + "%25eth0]",
		"[" + ip.String() + "%]",
		ip.String(),
		"[0" + ip.StringExpanded() + "]",
	}
	if up := strings.ToUpper(ip.String()); up != ip.String() {
		forms = append(forms, "["+up+"]")
	}
	if ip.Is4In6() {
		forms = append(forms, ip.Unmap().String(), "[::ffff:"+ip.Unmap().String()+"]")
	}
	return forms
}

func orStr(s, d string) string {
	if s == "" {
		return d
	}
	return s
}

func orStr2(port string) string {
	if port == "" {
		return ""
	}
	return ":" + port
}

type reqPools struct {
	allowed  []string
	near     []string
	patterns []string // the configured origin patterns, verbatim (a pattern with a wildcard is not an origin)
	methods  []string // as listed (normalised)
	names    []string // lower-case listed header names
}

// unifold replaces one k/K, i/I or s/S of s by the Kelvin sign, the dotted
// capital I / dotless i, or the long s: letters outside ASCII that
// strings.ToLower, ToUpper or EqualFold map onto the ASCII letter.
func unifold(t *rapid.T, s string) (string, bool) {
	var pos []int
	for i := 0; i < len(s); i++ {
		switch s[i] {
		case 'k', 'K', 'i', 'I', 's', 'S':
			pos = append(pos, i)
		}
	}
	if len(pos) == 0 {
		return s, false
	}
	i := pos[uniform(t, "foldpos", len(pos))]
	var r string
	switch s[i] {
	case 'k', 'K':
		r = "\u212a"
	case 'i':
		r = pick(t, "foldi", []string{"\u0130", "\u0131"})
	case 'I':
		r = "\u0130"
	default:
		r = "\u017f"
	}
	return s[:i] + r + s[i+1:], true
}

func poolsOf(c Cfg) reqPools {
	a, n := originPools(c)
	if len(a) == 0 {
		a = []string{"https://any.example", "http://localhost:8080"}
	}
	_, ms := listedMethods(c)
	_, _, names := listedReqHdrs(c)
	// configurations that are not valid (C03 draws some on purpose) may list empty entries
	nonEmpty := func(in []string) []string {
		var out []string
		for _, s := range in {
			if s != "" {
				out = append(out, s)
			}
		}
		return out
	}
	return reqPools{allowed: a, near: n, patterns: nonEmpty(ss(c.Origins)), methods: nonEmpty(ms), names: nonEmpty(names)}
}

// genBytes draws an arbitrary byte string (hostile alphabet first).
func genBytes(t *rapid.T, label string, maxLen int) string {
	n := uniform(t, label+"_n", maxLen+1)
	const hostile = "a:/.[]*,- \t\x00\xff@?#%0189zZ"
	b := make([]byte, n)
	for i := range b {
		if chance(t, label+"_any", 20) {
			b[i] = byte(rapid.IntRange(0, 255).Draw(t, label+"_b"))
		} else {
			b[i] = hostile[uniform(t, label+"_h", len(hostile))]
		}
	}
	return string(b)
}

func genOriginVal(t *rapid.T, p reqPools) Val {
	switch k := uniform(t, "originkind", 100); {
	case k < 40:
		return V(pick(t, "allowed", p.allowed))
	case k < 62 && len(p.near) > 0:
		return V(pick(t, "near", p.near))
	case k < 90:
		return malformOrigin(t, pick(t, "mbase", p.allowed))
	case k < 93:
		return V("https://unrelated.example")
	case k < 96 && len(p.patterns) > 0:
		// the text of a configured pattern, wildcards and all, presented as an Origin
		return V(pick(t, "patterntext", p.patterns))
	default:
		return V(genBytes(t, "originbytes", 24))
	}
}

func genACRMVal(t *rapid.T, p reqPools) Val {
	switch k := uniform(t, "acrmkind", 100); {
	case k < 25:
		return V(pick(t, "safel", []string{"GET", "HEAD", "POST"}))
	case k < 55 && len(p.methods) > 0:
		m := pick(t, "listed", p.methods)
		if chance(t, "acrmcase", 20) {
			m = lower(m)
		} else if chance(t, "acrmfold", 8) {
			m, _ = unifold(t, m)
		}
		return V(m)
	case k < 75:
		return V(pick(t, "unlisted", []string{"PUT", "DELETE", "PATCH", "UNLISTED", "put", "get", "*", "CONNECT"}))
	case k < 85:
		return V(pick(t, "acrmodd", []string{"", " ", "PUT ", "PUT,GET", "P\x00T", "\xff"}))
	case k < 90:
		return Val{S: "M", Rep: pick(t, "acrmlen", []int{100, 1 << 12, 1 << 20})}
	default:
		return V(genBytes(t, "acrmbytes", 12))
	}
}

// genACRHLine draws one ACRH field line.
func genACRHLine(t *rapid.T, p reqPools) Val {
	switch k := uniform(t, "acrhkind", 100); {
	case k < 30 && len(p.names) > 0:
		// a sorted subset of the listed names (what a browser sends)
		var sub []string
		for _, n := range p.names {
			if chance(t, "insub", 60) {
				sub = append(sub, n)
			}
		}
		sep := pick(t, "sep", []string{",", ",", ", ", " ,", ",\t", " , ", ",,", ",  "})
		return V(strings.Join(sub, sep))
	case k < 40 && len(p.names) > 0:
		a, b := pick(t, "n1", p.names), pick(t, "n2", p.names)
		return V(a + "," + b)
	case k < 50:
		return V(pick(t, "acrhfix", []string{"authorization", "x-unlisted", "x-foo", "content-type", "x-foo,x-unlisted", "*", "", ",", " ", "Authorization", "X-FOO"}))
	case k < 60 && len(p.names) > 0:
		n := pick(t, "nm", p.names)
		folded, _ := unifold(t, n)
		return V(pick(t, "mut", []string{n + "x", n[:len(n)-1], strings.ToUpper(n), " " + n, n + " ", "  " + n, n + ",", "," + n, n + "\x00", folded}))
	case k < 70:
		cnt := pick(t, "empties", []int{1, 15, 16, 17, 18, 40})
		tail := ""
		if len(p.names) > 0 {
			tail = p.names[0]
		}
		return V(strings.Repeat(",", cnt) + tail)
	case k < 78:
		return Val{S: Str(pick(t, "bigunit", []string{"a", "a,", ",", " ", "x-foo,"})), Rep: pick(t, "biglen", []int{300, 1 << 12, 1 << 17})}
	default:
		return V(genBytes(t, "acrhbytes", 20))
	}
}

func genValList(t *rapid.T, label string, one func() Val) []Val {
	switch k := uniform(t, label+"_count", 100); {
	case k < 5:
		return nil // present with zero values
	case k < 80:
		return []Val{one()}
	case k < 93:
		return []Val{one(), one()}
	case k < 98:
		return []Val{one(), one(), one()}
	default:
		// many field lines: counts around typical thresholds
		n := pick(t, label+"_many", []int{4, 8, 16, 17, 18, 64, 256, 257})
		out := make([]Val, n)
		for i := range out {
			if i < 3 {
				out[i] = one()
			} else {
				out[i] = out[i%3]
			}
		}
		return out
	}
}

// genReq draws an arbitrary request: any method; Origin/ACRM/ACRH/ACRPN each
// absent, present with zero values, or with one or several values drawn from
// configuration-derived pools (allowed, near-miss, malformed, junk).
func genReq(t *rapid.T, p reqPools) Req {
	r := Req{Method: pick(t, "method", reqMethods)}
	if !chance(t, "noorigin", 12) {
		r.Hdr = append(r.Hdr, HV{hOrigin, genValList(t, "origin", func() Val { return genOriginVal(t, p) })})
	}
	acrmPct := 35
	if r.Method == "OPTIONS" {
		acrmPct = 75
	}
	if chance(t, "acrm", acrmPct) {
		r.Hdr = append(r.Hdr, HV{hACRM, genValList(t, "acrm", func() Val { return genACRMVal(t, p) })})
	}
	if chance(t, "acrh", 45) {
		r.Hdr = append(r.Hdr, HV{hACRH, genValList(t, "acrh", func() Val { return genACRHLine(t, p) })})
	}
	if chance(t, "acrpn", 35) {
		r.Hdr = append(r.Hdr, HV{hACRPN, genValList(t, "acrpn", func() Val {
			return V(pick(t, "acrpnv", []string{"true", "true", "true", "false", "TRUE", "", "true ", "1"}))
		})})
	}
	genOtherHeaders(t, &r)
	if chance(t, "target", 12) {
		r.Target = pick(t, "targetv", []string{"*", "*", "/a/b?x=1", "/", "/*", "//double"})
	}
	if chance(t, "proto", 10) {
		r.Proto = pick(t, "protov", []string{"1.0", "2"})
	}
	genHostTLS(t, &r)
	if chance(t, "body", 7) {
		// a message body is no CORS matter: a few bytes, a KiB, unknown length (chunked), or an explicit http.NoBody
		r.Body = pick(t, "bodyshape", []int{2, 17, 1000, -1, -1, -2})
	}
	return r
}

// commonRequestHeaders: request headers the middleware must NOT care about,
// alone and in the combinations in which they occur in practice.
var commonRequestHeaders = [][]HV{
	{{"Connection", Vals("Upgrade")}, {"Upgrade", Vals("websocket")}, {"Sec-Websocket-Key", Vals("dGhlIHNhbXBsZSBub25jZQ==")}, {"Sec-Websocket-Version", Vals("13")}},
	{{"Connection", Vals("keep-alive, Upgrade")}, {"Upgrade", Vals("websocket")}},
	{{"Connection", Vals("close")}},
	{{"Sec-Fetch-Mode", Vals("cors")}, {"Sec-Fetch-Site", Vals("cross-site")}, {"Sec-Fetch-Dest", Vals("empty")}},
	{{"Sec-Fetch-Mode", Vals("no-cors")}},
	{{"Sec-Fetch-Mode", Vals("navigate")}, {"Sec-Fetch-Site", Vals("same-origin")}},
	{{"Authorization", Vals("Bearer xyz")}},
	{{"Cookie", Vals("a=b")}},
	{{"Content-Type", Vals("application/json")}},
	{{"Content-Type", Vals("text/plain")}},
	{{"Accept", Vals("*/*")}},
	{{"Range", Vals("bytes=0-1")}},
	{{"If-None-Match", Vals("\"abc\"")}},
	{{"X-Requested-With", Vals("XMLHttpRequest")}},
	{{"X-Forwarded-Host", Vals("example.com")}, {"X-Forwarded-Proto", Vals("https")}, {"Forwarded", Vals("for=1.2.3.4;proto=https")}},
	{{"Referer", Vals("https://example.com/page")}},
	{{"User-Agent", Vals("curl/8")}},
	{{"Host", Vals("example.com")}},
	{{"Te", Vals("trailers")}},
	{{"Expect", Vals("100-continue")}},
	{{"Via", Vals("1.1 proxy")}},
	{{"Access-Control-Request-Local-Network", Vals("true")}},
	{{"Access-Control-Request-Methods", Vals("PUT")}},
	{{"origin", Vals("https://example.com")}},
	{{"X-Other", Vals("1")}},
	{{"Service-Worker", Vals("script")}},
	{{"Purpose", Vals("prefetch")}},
	{{"Cache-Control", Vals("no-cache")}, {"Pragma", Vals("no-cache")}},
}

func genOtherHeaders(t *rapid.T, r *Req) {
	for i, n := 0, pick(t, "nother", []int{0, 0, 0, 1, 1, 2}); i < n; i++ {
		for _, hv := range pick(t, "otherset", commonRequestHeaders) {
			if _, dup := r.Get(hv.Key); !dup {
				r.Hdr = append(r.Hdr, hv)
			}
		}
	}
}

// genHostTLS sometimes makes the request look same-origin: Host equal to the
// host[:port] of its own Origin value, over TLS when the origin is https. A
// CORS middleware must not treat such requests specially (Origin is what
// counts; a reverse proxy may rewrite Host).
func genHostTLS(t *rapid.T, r *Req) {
	if !chance(t, "hosttls", 18) {
		return
	}
	if o, ok := firstVal(*r, hOrigin); ok {
		if i := strings.Index(o, "://"); i > 0 {
			r.Host = o[i+3:]
			r.TLS = strings.HasPrefix(o, "https")
			if chance(t, "hostonly", 30) {
				r.TLS = !r.TLS
			}
			return
		}
	}
	r.Host = pick(t, "hostv", []string{"example.com", "localhost:8080", "127.0.0.1", "[::1]:9090"})
	r.TLS = chance(t, "tls", 50)
}
