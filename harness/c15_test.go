package harness

import (
	"fmt"
	"strings"
	"testing"

	"github.com/jub0bs/cors"
	"pgregory.net/rapid"
)

// C15: config lists are sets: order, duplicates, header-name case, method
// spelling (where Fetch normalises) and safelisted entries are irrelevant.

type C15Case struct {
	Cfg  Cfg `json:"cfg"`
	Twin Cfg `json:"twin"`
}

func flipCase(t *rapid.T, s string) string {
	b := []byte(s)
	for i := range b {
		if chance(t, "flip", 40) {
			switch {
			case 'a' <= b[i] && b[i] <= 'z':
				b[i] -= 32
			case 'A' <= b[i] && b[i] <= 'Z':
				b[i] += 32
			}
		}
	}
	return string(b)
}

func permDup(t *rapid.T, label string, in []Str, variant func(string) string) []Str {
	if len(in) == 0 {
		return nil
	}
	perm := rapid.Permutation(in).Draw(t, label+"_perm")
	var out []Str
	for _, s := range perm {
		v := string(s)
		if variant != nil && s != "*" {
			v = variant(v)
		}
		out = append(out, Str(v))
		if chance(t, label+"_dup", 25) {
			w := string(s)
			if variant != nil && s != "*" {
				w = variant(w)
			}
			out = append(out, Str(w))
		}
	}
	return out
}

func c15Gen(t *rapid.T) C15Case {
	c := genValidCfg(t)
	// make "*" next to Authorization frequent
	if chance(t, "starauth", 30) {
		c.RequestHeaders = append(c.RequestHeaders, "*", Str(pick(t, "auth", []string{"Authorization", "authorization"})))
	}
	tw := c
	tw.Origins = permDup(t, "origins", c.Origins, nil)
	tw.Methods = permDup(t, "methods", c.Methods, func(m string) string {
		if browserNormalised[strings.ToUpper(m)] {
			return flipCase(t, m) // Fetch normalises these; other methods are case-sensitive
		}
		return m
	})
	tw.RequestHeaders = permDup(t, "reqhdrs", c.RequestHeaders, func(h string) string { return flipCase(t, h) })
	tw.ResponseHeaders = permDup(t, "reshdrs", c.ResponseHeaders, func(h string) string { return flipCase(t, h) })
	// safelisted methods / response-header names may be added or removed freely
	if chance(t, "addsafe", 40) {
		tw.Methods = insertAt(t, tw.Methods, pick(t, "safem", []string{"GET", "HEAD", "POST", "get", "Post"}))
	}
	if chance(t, "addsafer", 40) {
		tw.ResponseHeaders = insertAt(t, tw.ResponseHeaders, pick(t, "safer", []string{"Cache-Control", "content-language", "Content-Length", "Content-Type", "Expires", "last-modified", "Pragma"}))
	}
	if chance(t, "dropsafe", 30) {
		var ms []Str
		for _, m := range tw.Methods {
			if !safelistedMethod(NormMethod(string(m))) {
				ms = append(ms, m)
			}
		}
		tw.Methods = ms
		var rs []Str
		for _, h := range tw.ResponseHeaders {
			if !safelistedResHdr[lower(string(h))] {
				rs = append(rs, h)
			}
		}
		tw.ResponseHeaders = rs
	}
	return C15Case{Cfg: c, Twin: tw}
}

func distinctCount(in []Str, norm func(string) string) int {
	set := map[string]bool{}
	for _, s := range in {
		set[norm(string(s))] = true
	}
	return len(set)
}

func orderDiffers(a, b []Str) bool {
	if len(a) != len(b) {
		return true
	}
	for i := range a {
		if a[i] != b[i] {
			return true
		}
	}
	return false
}

func starAuthOrder(in []Str) string {
	si, ai := -1, -1
	for i, h := range in {
		if h == "*" && si < 0 {
			si = i
		}
		if lower(string(h)) == "authorization" && ai < 0 {
			ai = i
		}
	}
	switch {
	case si < 0 || ai < 0:
		return ""
	case si < ai:
		return "star-first"
	}
	return "auth-first"
}

func c15Check(c C15Case, rec *Recorder) *Disc {
	m1, err1 := cors.NewMiddleware(c.Cfg.Cors())
	m2, err2 := cors.NewMiddleware(c.Twin.Cors())
	if (err1 == nil) != (err2 == nil) {
		return discf("cfg %+v accepted=%v but its twin %+v accepted=%v (%v / %v)", c.Cfg, err1 == nil, c.Twin, err2 == nil, err1, err2)
	}
	if err1 != nil {
		rec.Class("rejected-config")
		return nil
	}
	suite := append(Suite(c.Cfg), Suite(c.Twin)...)
	for _, debug := range []bool{false, true} {
		s1 := sigsFor(m1, suite, debug)
		s2 := sigsFor(m2, suite, debug)
		rec.Eval(2 * len(suite))
		if i := firstDiff(s1, s2); i >= 0 {
			return discf("debug=%v: cfg %+v answers {%s} with %s but its twin %+v answers %s", debug, c.Cfg, suite[i].Brief(), abbrev(s1[i], 400), c.Twin, abbrev(s2[i], 400))
		}
	}
	id := func(s string) string { return s }
	nt := false
	for _, pr := range []struct {
		a, b []Str
		norm func(string) string
	}{{c.Cfg.Origins, c.Twin.Origins, id}, {c.Cfg.Methods, c.Twin.Methods, NormMethod}, {c.Cfg.RequestHeaders, c.Twin.RequestHeaders, lower}, {c.Cfg.ResponseHeaders, c.Twin.ResponseHeaders, lower}} {
		if distinctCount(pr.a, pr.norm) >= 2 && orderDiffers(pr.a, pr.b) {
			nt = true
		}
	}
	if a, b := starAuthOrder(c.Cfg.RequestHeaders), starAuthOrder(c.Twin.RequestHeaders); a != "" {
		rec.Class("star-next-to-authorization")
		if a != b {
			rec.Class("star-moved-relative-to-authorization")
			nt = true
		}
	}
	if nt {
		rec.NonTrivialHash(h64(fmt.Sprintf("%+v|%+v", c.Cfg, c.Twin)))
	}
	return nil
}

func TestC15(t *testing.T) {
	Prop[C15Case]{ID: "C15", Gen: c15Gen, Check: c15Check,
		Rule: "generator: valid configuration c and twin c' = drawn permutation of every list with drawn duplications, header names in flipped letter case, methods that Fetch normalises in flipped case, safelisted methods / response-header names added or removed, * moved relative to Authorization. " +
			"Oracle: c' accepted iff c; identical responses on Suite(c) u Suite(c') in both debug modes (Config() deliberately not compared). " +
			"non-trivial = twin reorders a list with >=2 distinct entries or moves * relative to Authorization; distinct by (c, c').",
		Assumptions: []string{"methods other than DELETE/GET/HEAD/OPTIONS/POST/PUT are case-sensitive and are not case-flipped"}}.Run(t)
}
