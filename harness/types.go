// Package harness holds the property-based verification machinery for
// jub0bs/cors: generators, reference models, observation helpers and one
// property per listed claim (C01..C19). Everything goes through the public
// API of the library.
package harness

import (
	"crypto/tls"
	"encoding/hex"
	"encoding/json"
	"fmt"
	"io"
	"net/http"
	"net/url"
	"strconv"
	"strings"
	"unicode/utf8"

	"github.com/jub0bs/cors"
)

// Str is a byte string that survives a JSON round trip even when it is not
// valid UTF-8 (Go's encoder would otherwise replace bytes with U+FFFD).
type Str string

func (s Str) MarshalJSON() ([]byte, error) {
	if utf8.ValidString(string(s)) {
		return json.Marshal(string(s))
	}
	return json.Marshal(map[string]string{"hex": hex.EncodeToString([]byte(s))})
}

func (s *Str) UnmarshalJSON(b []byte) error {
	if len(b) > 0 && b[0] == '"' {
		var x string
		if err := json.Unmarshal(b, &x); err != nil {
			return err
		}
		*s = Str(x)
		return nil
	}
	var m map[string]string
	if err := json.Unmarshal(b, &m); err != nil {
		return err
	}
	raw, err := hex.DecodeString(m["hex"])
	if err != nil {
		return err
	}
	*s = Str(raw)
	return nil
}

// Val is a header value or list entry. When Rep > 0 the value denotes
// strings.Repeat(S, Rep) + Tail: this keeps megabyte-sized inputs readable in
// replay files.
type Val struct {
	S    Str `json:"s"`
	Rep  int `json:"rep,omitempty"`
	Tail Str `json:"tail,omitempty"`
}

func V(s string) Val { return Val{S: Str(s)} }

func (v Val) String() string {
	if v.Rep > 0 {
		return strings.Repeat(string(v.S), v.Rep) + string(v.Tail)
	}
	return string(v.S)
}

func Vals(ss ...string) []Val {
	out := make([]Val, len(ss))
	for i, s := range ss {
		out[i] = V(s)
	}
	return out
}

func Strs(vs []Val) []string {
	if vs == nil {
		return nil
	}
	out := make([]string, len(vs))
	for i, v := range vs {
		out[i] = v.String()
	}
	return out
}

// Cfg mirrors cors.Config in a JSON-serialisable way.
type Cfg struct {
	Origins         []Str `json:"origins"`
	Credentialed    bool  `json:"credentialed,omitempty"`
	Methods         []Str `json:"methods,omitempty"`
	RequestHeaders  []Str `json:"request_headers,omitempty"`
	MaxAge          int   `json:"max_age,omitempty"`
	ResponseHeaders []Str `json:"response_headers,omitempty"`
	Status          int   `json:"status,omitempty"`
	PNA             bool  `json:"pna,omitempty"`
	PNANoCORS       bool  `json:"pna_nocors,omitempty"`
	TolInsecure     bool  `json:"tolerate_insecure,omitempty"`
	TolPSL          bool  `json:"tolerate_psl,omitempty"`
}

func ss(in []Str) []string {
	if in == nil {
		return nil
	}
	out := make([]string, len(in))
	for i, s := range in {
		out[i] = string(s)
	}
	return out
}

func SS(in ...string) []Str {
	if in == nil {
		return nil
	}
	out := make([]Str, len(in))
	for i, s := range in {
		out[i] = Str(s)
	}
	return out
}

// Cors builds a fresh cors.Config; every slice is freshly allocated.
func (c Cfg) Cors() cors.Config {
	return cors.Config{
		Origins:         ss(c.Origins),
		Credentialed:    c.Credentialed,
		Methods:         ss(c.Methods),
		RequestHeaders:  ss(c.RequestHeaders),
		MaxAgeInSeconds: c.MaxAge,
		ResponseHeaders: ss(c.ResponseHeaders),
		ExtraConfig: cors.ExtraConfig{
			PreflightSuccessStatus:                        c.Status,
			PrivateNetworkAccess:                          c.PNA,
			PrivateNetworkAccessInNoCORSModeOnly:          c.PNANoCORS,
			DangerouslyTolerateInsecureOrigins:            c.TolInsecure,
			DangerouslyTolerateSubdomainsOfPublicSuffixes: c.TolPSL,
		},
	}
}

func CfgFromCors(c *cors.Config) Cfg {
	return Cfg{
		Origins:         SS(c.Origins...),
		Credentialed:    c.Credentialed,
		Methods:         SS(c.Methods...),
		RequestHeaders:  SS(c.RequestHeaders...),
		MaxAge:          c.MaxAgeInSeconds,
		ResponseHeaders: SS(c.ResponseHeaders...),
		Status:          c.PreflightSuccessStatus,
		PNA:             c.PrivateNetworkAccess,
		PNANoCORS:       c.PrivateNetworkAccessInNoCORSModeOnly,
		TolInsecure:     c.DangerouslyTolerateInsecureOrigins,
		TolPSL:          c.DangerouslyTolerateSubdomainsOfPublicSuffixes,
	}
}

func (c Cfg) AllowAll() bool {
	for _, o := range c.Origins {
		if o == "*" {
			return true
		}
	}
	return false
}

func (c Cfg) SuccessStatus() int {
	if c.Status == 0 {
		return 204
	}
	return c.Status
}

// HV is one request (or pre-set response) header: a key exactly as stored in
// the http.Header map and its value list. Vals == nil with Present means the
// key is present with a zero-length value list.
type HV struct {
	Key  string `json:"key"`
	Vals []Val  `json:"vals"`
}

// Req is a request as the middleware sees it: a method and a header map.
type Req struct {
	Method string `json:"method"`
	Hdr    []HV   `json:"hdr,omitempty"`
	// Target is the request target: "" means "/", "*" is the asterisk form
	// (OPTIONS *), anything else an origin-form path with optional query.
	Target string `json:"target,omitempty"`
	// Proto is "" (HTTP/1.1), "1.0" or "2".
	Proto string `json:"proto,omitempty"`
	// Host is the request's Host ("" means server.example); TLS marks an https request.
	Host string `json:"host,omitempty"`
	TLS  bool   `json:"tls,omitempty"`
	// Body: 0 = no message body (nil Body, ContentLength 0); n > 0 = a body of n bytes with Content-Length: n;
	// -1 = a body of unknown length (chunked / an HTTP/2 stream left open), ContentLength -1 and no Content-Length field;
	// -2 = http.NoBody with ContentLength 0 (what clients that "send no body" explicitly produce).
	Body int `json:"body,omitempty"`
}

func (r Req) Get(key string) ([]Val, bool) {
	for _, h := range r.Hdr {
		if h.Key == key {
			return h.Vals, true
		}
	}
	return nil, false
}

// With returns a copy of r in which key is set to vals (appended if absent).
func (r Req) With(key string, vals ...string) Req {
	out := Req{Method: r.Method, Target: r.Target, Proto: r.Proto, Host: r.Host, TLS: r.TLS}
	done := false
	for _, h := range r.Hdr {
		if h.Key == key {
			out.Hdr = append(out.Hdr, HV{Key: key, Vals: Vals(vals...)})
			done = true
			continue
		}
		out.Hdr = append(out.Hdr, h)
	}
	if !done {
		out.Hdr = append(out.Hdr, HV{Key: key, Vals: Vals(vals...)})
	}
	return out
}

func (r Req) Without(key string) Req {
	out := Req{Method: r.Method, Target: r.Target, Proto: r.Proto, Host: r.Host, TLS: r.TLS}
	for _, h := range r.Hdr {
		if h.Key != key {
			out.Hdr = append(out.Hdr, h)
		}
	}
	return out
}

var rootURL = &url.URL{Path: "/"}

// HTTP materialises the request. Header value slices are freshly allocated
// with no spare capacity beyond their length.
func (r Req) HTTP() *http.Request {
	h := make(http.Header, len(r.Hdr))
	for _, kv := range r.Hdr {
		vals := make([]string, len(kv.Vals))
		for i, v := range kv.Vals {
			vals[i] = v.String()
		}
		h[kv.Key] = vals
	}
	hr := &http.Request{Method: r.Method, URL: rootURL, RequestURI: "/", Header: h, Proto: "HTTP/1.1", ProtoMajor: 1, ProtoMinor: 1, Host: "server.example"}
	switch r.Target {
	case "":
	case "*":
		hr.URL, hr.RequestURI = &url.URL{Path: "*"}, "*"
	default:
		if u, err := url.ParseRequestURI(r.Target); err == nil {
			hr.URL, hr.RequestURI = u, r.Target
		}
	}
	if r.Host != "" {
		hr.Host = r.Host
	}
	if r.TLS {
		hr.TLS = &tls.ConnectionState{}
	}
	switch {
	case r.Body > 0:
		hr.Body, hr.ContentLength = io.NopCloser(strings.NewReader(strings.Repeat("x", r.Body))), int64(r.Body)
		if _, ok := h["Content-Length"]; !ok {
			h["Content-Length"] = []string{strconv.Itoa(r.Body)}
		}
	case r.Body == -1:
		hr.Body, hr.ContentLength = io.NopCloser(strings.NewReader("{}")), -1
		hr.TransferEncoding = []string{"chunked"}
	case r.Body == -2:
		hr.Body = http.NoBody
	}
	switch r.Proto {
	case "1.0":
		hr.Proto, hr.ProtoMajor, hr.ProtoMinor = "HTTP/1.0", 1, 0
	case "2":
		hr.Proto, hr.ProtoMajor, hr.ProtoMinor = "HTTP/2.0", 2, 0
	}
	return hr
}

func (r Req) Brief() string {
	var b strings.Builder
	b.WriteString(r.Method)
	if r.Target != "" {
		b.WriteString(" target=" + r.Target)
	}
	if r.Proto != "" {
		b.WriteString(" HTTP/" + r.Proto)
	}
	if r.Host != "" {
		b.WriteString(" host=" + r.Host)
	}
	if r.Body != 0 {
		b.WriteString(fmt.Sprintf(" body=%d", r.Body))
	}
	if r.TLS {
		b.WriteString(" tls")
	}
	for _, h := range r.Hdr {
		fmt.Fprintf(&b, " %s=%s", h.Key, briefVals(h.Vals))
	}
	return b.String()
}

func briefVals(vs []Val) string {
	parts := make([]string, len(vs))
	for i, v := range vs {
		parts[i] = abbrev(v.String(), 80)
	}
	return fmt.Sprintf("%q", parts)
}

func abbrev(s string, n int) string {
	if len(s) <= n {
		return s
	}
	return fmt.Sprintf("%s...(%d bytes)", s[:n/2], len(s))
}

const (
	hOrigin = "Origin"
	hACRM   = "Access-Control-Request-Method"
	hACRH   = "Access-Control-Request-Headers"
	hACRPN  = "Access-Control-Request-Private-Network"
	hACAO   = "Access-Control-Allow-Origin"
	hACAC   = "Access-Control-Allow-Credentials"
	hACAM   = "Access-Control-Allow-Methods"
	hACAH   = "Access-Control-Allow-Headers"
	hACAPN  = "Access-Control-Allow-Private-Network"
	hACMA   = "Access-Control-Max-Age"
	hACEH   = "Access-Control-Expose-Headers"
	hVary   = "Vary"
)

// Preflight builds a browser-shaped preflight request.
func Preflight(origin, method string, acrh ...string) Req {
	r := Req{Method: "OPTIONS", Hdr: []HV{{hOrigin, Vals(origin)}, {hACRM, Vals(method)}}}
	if len(acrh) > 0 {
		r.Hdr = append(r.Hdr, HV{hACRH, Vals(acrh...)})
	}
	return r
}

func Actual(method, origin string) Req {
	return Req{Method: method, Hdr: []HV{{hOrigin, Vals(origin)}}}
}

func firstVal(r Req, key string) (string, bool) {
	vs, ok := r.Get(key)
	if !ok || len(vs) == 0 {
		return "", false
	}
	return vs[0].String(), true
}
