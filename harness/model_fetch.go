package harness

import (
	"net/http"
	"sort"
	"strings"
)

// ---------------------------------------------------------------------------
// Executable transcription of the browser side of the CORS protocol:
// Fetch "CORS-preflight fetch", "CORS check", and Private Network Access's
// Access-Control-Allow-Private-Network requirement.

// Intent is a cross-origin request a page asks the browser to make in cors
// mode.
type Intent struct {
	Origin  string   `json:"origin"`
	Method  string   `json:"method"`            // as given by the page; the browser normalises it
	Headers []string `json:"headers,omitempty"` // CORS-unsafe request-header names (any case)
	Creds   bool     `json:"credentials_include,omitempty"`
	PNA     bool     `json:"private_network_target,omitempty"`
	Perturb int      `json:"acrh_perturbation,omitempty"`
	// HostLikeOrigin: the request's Host header equals the origin's host[:port] (e.g. behind a reverse
	// proxy that serves several sites); the request is still cross-origin as far as the browser is concerned.
	HostLikeOrigin bool `json:"host_like_origin,omitempty"`
	// Ambient selects the headers a browser sends along with every request of its own accord (Fetch Metadata,
	// User-Agent, Accept*, Referer, cache directives ...); 0 = none. They carry no CORS meaning: the verdict
	// must not depend on them.
	Ambient int `json:"ambient,omitempty"`
}

const nAmbient = 6

// ambientHeaders returns what a browser adds of its own accord to a cross-origin request made with fetch().
func ambientHeaders(in Intent, preflight bool) []HV {
	site := "cross-site"
	var out []HV
	switch in.Ambient {
	case 0:
		return nil
	case 2:
		// a cross-ORIGIN request between two hosts of one site (app.example.com -> api.example.com, or another port)
		site = "same-site"
	case 3:
		// do-not-track and global privacy control on, client hints
		out = append(out, HV{"Dnt", Vals("1")}, HV{"Sec-Gpc", Vals("1")}, HV{"Sec-Ch-Ua-Mobile", Vals("?0")}, HV{"Sec-Ch-Ua-Platform", Vals("\"Linux\"")})
	case 4:
		out = append(out, HV{"Priority", Vals("u=4")}, HV{"Te", Vals("trailers")})
	case 5:
		// an older browser or a non-browser client imitating one: no Fetch Metadata at all
		return []HV{{"User-Agent", Vals("Mozilla/5.0 (compatible)")}, {"Accept", Vals("*/*")}, {"Referer", Vals(in.Origin + "/")}, {"Connection", Vals("keep-alive")}}
	}
	out = append(out,
		HV{"Sec-Fetch-Mode", Vals("cors")}, HV{"Sec-Fetch-Site", Vals(site)}, HV{"Sec-Fetch-Dest", Vals("empty")},
		HV{"User-Agent", Vals("Mozilla/5.0 (X11; Linux x86_64) AppleWebKit/537.36 (KHTML, like Gecko) Chrome/126.0.0.0 Safari/537.36")},
		HV{"Accept", Vals("*/*")}, HV{"Accept-Language", Vals("en-GB,en;q=0.9")}, HV{"Accept-Encoding", Vals("gzip, deflate, br, zstd")},
		HV{"Referer", Vals(in.Origin + "/")}, HV{"Connection", Vals("keep-alive")})
	if !preflight && in.Creds {
		out = append(out, HV{"Cookie", Vals("session=abc")})
	}
	return out
}

func isTokenByte(b byte) bool {
	switch {
	case 'a' <= b && b <= 'z', 'A' <= b && b <= 'Z', '0' <= b && b <= '9':
		return true
	}
	return strings.IndexByte("!#$%&'*+-.^_`|~", b) >= 0
}

func isToken(s string) bool {
	if s == "" {
		return false
	}
	for i := 0; i < len(s); i++ {
		if !isTokenByte(s[i]) {
			return false
		}
	}
	return true
}

// extractList is Fetch's "extract header list values" for a #token header:
// nil,true when the header is absent; failure when an element is not a token.
func extractList(h map[string][]string, name string) (vals []string, present, ok bool) {
	lines, found := h[name]
	if !found || len(lines) == 0 {
		return nil, false, true
	}
	for _, line := range lines {
		for _, el := range strings.Split(line, ",") {
			el = strings.Trim(el, " \t")
			if el == "" {
				continue // recipients must ignore empty list elements
			}
			if !isToken(el) {
				return nil, true, false
			}
			vals = append(vals, el)
		}
	}
	return vals, true, true
}

func getCombined(h map[string][]string, name string) (string, bool) {
	v, ok := h[name]
	if !ok || len(v) == 0 {
		return "", false
	}
	return strings.Join(v, ", "), true
}

// corsCheck is Fetch's "CORS check".
func corsCheck(h map[string][]string, origin string, include bool) bool {
	acao, ok := getCombined(h, hACAO)
	if !ok {
		return false
	}
	if !include && acao == "*" {
		return true
	}
	if acao != origin {
		return false
	}
	if !include {
		return true
	}
	acac, ok := getCombined(h, hACAC)
	return ok && acac == "true"
}

func containsFold(list []string, s string) bool {
	for _, x := range list {
		if strings.EqualFold(x, s) {
			return true
		}
	}
	return false
}

func contains(list []string, s string) bool {
	for _, x := range list {
		if x == s {
			return true
		}
	}
	return false
}

// unsafeNames returns the CORS-unsafe request-header names as the browser
// serialises them: byte-lower-cased, sorted, unique.
func unsafeNames(hdrs []string) []string {
	set := map[string]bool{}
	for _, h := range hdrs {
		set[lower(h)] = true
	}
	out := make([]string, 0, len(set))
	for h := range set {
		out = append(out, h)
	}
	sort.Strings(out)
	return out
}

// perturbACRH renders the sorted name list as ACRH field lines under one of
// the alterations the documentation tolerates.
func perturbACRH(names []string, mode int) []string {
	if len(names) == 0 {
		return nil
	}
	switch mode {
	case 1: // one SP after each comma
		return []string{strings.Join(names, ", ")}
	case 2: // one OWS byte on each side of every element
		parts := make([]string, len(names))
		for i, n := range names {
			if i%2 == 0 {
				parts[i] = " " + n + "\t"
			} else {
				parts[i] = "\t" + n + " "
			}
		}
		return []string{strings.Join(parts, ",")}
	case 3: // one element per field line
		return append([]string{}, names...)
	case 4: // empty elements sprinkled in (never more than 14 in total, whatever the number of names)
		return []string{"," + joinWithEmpties(names, ",", ",,", 12) + ","}
	case 5: // two lines, padded, with empties
		k := (len(names) + 1) / 2
		a := strings.Join(names[:k], " , ")
		b := strings.Join(names[k:], ",\t")
		if b == "" {
			return []string{a + " ,", ""}
		}
		return []string{a + ",", "," + b}
	case 6: // empty elements that carry one OWS byte on each side
		return []string{joinWithEmpties(names, " , ", " ,  , ", 12)}
	case 7: // the same with tabs, plus a whitespace-only element at either end
		return []string{"\t," + joinWithEmpties(names, "\t,\t", "\t,\t\t,\t", 12) + ", "}
	}
	return []string{strings.Join(names, ",")}
}

// joinWithEmpties joins names with sepEmpty (a separator that contains one
// empty element) for the first maxEmpties gaps and with sep afterwards, so
// that the documented budget of 16 empty elements is never exceeded.
func joinWithEmpties(names []string, sep, sepEmpty string, maxEmpties int) string {
	var b strings.Builder
	for i, n := range names {
		if i > 0 {
			if i <= maxEmpties {
				b.WriteString(sepEmpty)
			} else {
				b.WriteString(sep)
			}
		}
		b.WriteString(n)
	}
	return b.String()
}

// BrowserTrace records what the browser did, for diagnostics.
type BrowserTrace struct {
	Preflight     bool
	PreflightResp *Resp
	ActualResp    *Resp
	FailedAt      string
}

// Browser runs the intent against the wrapped handler the way a
// Fetch-compliant browser would and returns the end-to-end verdict.
func Browser(wrap func(http.Handler) http.Handler, in Intent) (bool, BrowserTrace) {
	var tr BrowserTrace
	method := NormMethod(in.Method)
	names := unsafeNames(in.Headers)
	needPreflight := !safelistedMethod(method) || len(names) > 0 || in.PNA
	if needPreflight {
		tr.Preflight = true
		req := Req{Method: "OPTIONS", Hdr: []HV{{hOrigin, Vals(in.Origin)}, {hACRM, Vals(method)}}}
		if lines := perturbACRH(names, in.Perturb); lines != nil {
			req.Hdr = append(req.Hdr, HV{hACRH, Vals(lines...)})
		}
		if in.PNA {
			req.Hdr = append(req.Hdr, HV{hACRPN, Vals("true")})
		}
		if in.HostLikeOrigin && strings.Contains(in.Origin, "://") {
			req.Host = strings.SplitN(in.Origin, "://", 2)[1]
			req.TLS = strings.HasPrefix(in.Origin, "https")
		}
		req.Hdr = append(req.Hdr, ambientHeaders(in, true)...)
		resp := Do(wrap, req, nil)
		tr.PreflightResp = &resp
		if resp.Called != 0 {
			// the preflight reached the application instead of being
			// answered; whatever it says, evaluate it like a browser would
			_ = resp
		}
		if !corsCheck(resp.Hdr, in.Origin, in.Creds) {
			tr.FailedAt = "preflight: CORS check"
			return false, tr
		}
		if resp.Status < 200 || resp.Status > 299 {
			tr.FailedAt = "preflight: status not ok"
			return false, tr
		}
		methods, _, ok1 := extractList(resp.Hdr, hACAM)
		hdrNames, _, ok2 := extractList(resp.Hdr, hACAH)
		if !ok1 || !ok2 {
			tr.FailedAt = "preflight: malformed ACAM/ACAH"
			return false, tr
		}
		if !contains(methods, method) && !safelistedMethod(method) && (in.Creds || !contains(methods, "*")) {
			tr.FailedAt = "preflight: method"
			return false, tr
		}
		for _, n := range names {
			if n == "authorization" && !containsFold(hdrNames, n) {
				tr.FailedAt = "preflight: non-wildcard header name authorization"
				return false, tr
			}
		}
		for _, n := range names {
			if !containsFold(hdrNames, n) && (in.Creds || !contains(hdrNames, "*")) {
				tr.FailedAt = "preflight: header " + n
				return false, tr
			}
		}
		if in.PNA {
			v, ok := getCombined(resp.Hdr, hACAPN)
			if !ok || v != "true" {
				tr.FailedAt = "preflight: private network access"
				return false, tr
			}
		}
	}
	req := Req{Method: method, Hdr: []HV{{hOrigin, Vals(in.Origin)}}}
	for _, n := range names {
		req.Hdr = append(req.Hdr, HV{http.CanonicalHeaderKey(n), Vals("v")})
	}
	if in.HostLikeOrigin && strings.Contains(in.Origin, "://") {
		req.Host = strings.SplitN(in.Origin, "://", 2)[1]
		req.TLS = strings.HasPrefix(in.Origin, "https")
	}
	req.Hdr = append(req.Hdr, ambientHeaders(in, false)...)
	resp := Do(wrap, req, nil)
	tr.ActualResp = &resp
	if !corsCheck(resp.Hdr, in.Origin, in.Creds) {
		tr.FailedAt = "actual: CORS check"
		return false, tr
	}
	return true, tr
}

// Permits is the specification side of C02: what the configuration means,
// straight from the property statement and the Config documentation.
func Permits(c Cfg, in Intent) (bool, string) {
	model := NewOriginModel(c.Origins)
	if !model.Allowed(in.Origin) {
		return false, "origin"
	}
	if c.PNANoCORS {
		return false, "no-cors-only PNA mode"
	}
	if in.Creds && !c.Credentialed {
		return false, "credentials"
	}
	method := NormMethod(in.Method)
	star, ms := listedMethods(c)
	if !safelistedMethod(method) && !star && !contains(ms, method) {
		return false, "method"
	}
	hstar, auth, names := listedReqHdrs(c)
	for _, n := range unsafeNames(in.Headers) {
		if contains(names, n) {
			continue
		}
		if hstar && (n != "authorization" || c.Credentialed || auth) {
			continue
		}
		return false, "header"
	}
	if in.PNA && !c.PNA {
		return false, "pna"
	}
	return true, "permitted"
}
