package harness

import (
	"bufio"
	"encoding/binary"
	"encoding/json"
	"fmt"
	"hash/fnv"
	"os"
	"path/filepath"
	"runtime"
	"sort"
	"strconv"
	"strings"
	"sync"
	"testing"
	"time"

	"pgregory.net/rapid"
)

// ---------------------------------------------------------------------------
// environment

func envOr(k, d string) string {
	if v := os.Getenv(k); v != "" {
		return v
	}
	return d
}

func verifRoot() string { return envOr("VERIF_ROOT", "/verif") }
func tier() string      { return envOr("VERIF_TIER", "quick") }
func thorough() bool    { return tier() == "thorough" }
func seedEnv() int64 {
	n, err := strconv.ParseInt(envOr("VERIF_SEED", "1"), 10, 64)
	if err != nil {
		return 1
	}
	return n
}
func shardEnv() int {
	n, _ := strconv.Atoi(envOr("VERIF_SHARD", "0"))
	return n
}
func envInt(k string, d int) int {
	if v := os.Getenv(k); v != "" {
		if n, err := strconv.Atoi(v); err == nil {
			return n
		}
	}
	return d
}

// ---------------------------------------------------------------------------
// discrepancies

// Disc describes a disagreement between the implementation and the oracle.
type Disc struct {
	Msg string `json:"msg"`
	// KF, if non-empty, names the known-finding signature this discrepancy
	// falls under (set by the property's own classifier).
	KF string `json:"kf,omitempty"`
}

func discf(format string, args ...any) *Disc { return &Disc{Msg: fmt.Sprintf(format, args...)} }

// ---------------------------------------------------------------------------
// recorder

type Recorder struct {
	mu        sync.Mutex
	Prop      string
	Part      string // sub-check name (rapid, exhaustive, stress, ...)
	evals     int64
	cases     int64
	nontriv   map[uint64]struct{}
	classes   map[string]int64
	excluded  map[string]int64
	kfSeen    map[string]string
	samples   []json.RawMessage
	sampleAt  int64
	Extra     map[string]any
	Exhaust   bool
	start     time.Time
	violation int
	rapidRun  int64
}

func NewRecorder(prop, part string) *Recorder {
	return &Recorder{Prop: prop, Part: part, nontriv: map[uint64]struct{}{}, classes: map[string]int64{},
		excluded: map[string]int64{}, kfSeen: map[string]string{}, Extra: map[string]any{}, start: time.Now(), sampleAt: 0}
}

func h64(parts ...string) uint64 {
	h := fnv.New64a()
	for _, p := range parts {
		h.Write([]byte(p))
		h.Write([]byte{0})
	}
	return h.Sum64()
}

func (r *Recorder) Eval(n int) {
	r.mu.Lock()
	r.evals += int64(n)
	r.mu.Unlock()
}

// NonTrivial records one non-trivial case, identified by key parts.
func (r *Recorder) NonTrivial(parts ...string) {
	h := h64(parts...)
	r.mu.Lock()
	r.nontriv[h] = struct{}{}
	r.mu.Unlock()
}

func (r *Recorder) NonTrivialHash(h uint64) {
	r.mu.Lock()
	r.nontriv[h] = struct{}{}
	r.mu.Unlock()
}

func (r *Recorder) Class(name string) {
	r.mu.Lock()
	r.classes[name]++
	r.mu.Unlock()
}

func (r *Recorder) ClassN(name string, n int) {
	r.mu.Lock()
	r.classes[name] += int64(n)
	r.mu.Unlock()
}

// Excluded records that a known finding was observed (and skipped).
func (r *Recorder) Excluded(sig, what string) {
	r.mu.Lock()
	r.excluded[sig]++
	if _, ok := r.kfSeen[sig]; !ok {
		r.kfSeen[sig] = what
	}
	r.mu.Unlock()
}

// Case marks the start of one generated case and decides whether to keep it
// as a sample: cases number 0,1,2,4,8,16,... are kept (first two plus the six
// most recent powers of two), a deterministic spread over the run.
func (r *Recorder) Case(c any) {
	r.mu.Lock()
	n := r.cases
	r.cases++
	keep := n == r.sampleAt
	if keep {
		if r.sampleAt == 0 {
			r.sampleAt = 1
		} else {
			r.sampleAt *= 2
		}
	}
	r.mu.Unlock()
	if !keep {
		return
	}
	r.AddSample(c)
}

func (r *Recorder) AddSample(c any) {
	var v any = c
	if b, ok := c.(interface{ Brief() any }); ok {
		v = b.Brief()
	}
	raw, err := json.Marshal(v)
	if err != nil {
		return
	}
	if len(raw) > 6000 {
		raw, _ = json.Marshal(map[string]any{"truncated_case_json": string(raw[:3000]) + "...", "bytes": len(raw)})
	}
	r.mu.Lock()
	r.samples = append(r.samples, raw)
	if len(r.samples) > 8 {
		r.samples = append(r.samples[:2], r.samples[3:]...)
	}
	r.mu.Unlock()
}

type partial struct {
	Property    string            `json:"property_id"`
	Part        string            `json:"part"`
	Tier        string            `json:"tier"`
	Seed        int64             `json:"seed"`
	Shard       int               `json:"shard"`
	Evaluations int64             `json:"evaluations"`
	Cases       int64             `json:"cases"`
	Distinct    int               `json:"distinct_nontrivial_shard"`
	Classes     map[string]int64  `json:"classes"`
	Excluded    map[string]int64  `json:"excluded_known_findings"`
	KFSeen      map[string]string `json:"kf_seen"`
	Samples     []json.RawMessage `json:"samples"`
	Extra       map[string]any    `json:"extra"`
	Exhaustive  bool              `json:"exhaustive"`
	Rule        string            `json:"rule"`
	Assumptions []string          `json:"assumptions"`
	WallS       float64           `json:"wall_s"`
	Violations  int               `json:"violations"`
	Requested   int               `json:"rapid_checks_requested"`
	RapidCases  int64             `json:"rapid_cases_run"`
}

// Flush writes the partial evidence for this recorder into VERIF_OUT.
func (r *Recorder) Flush(rule string, assumptions []string, requested int) {
	out := os.Getenv("VERIF_OUT")
	if out == "" {
		return
	}
	_ = os.MkdirAll(out, 0o755)
	r.mu.Lock()
	defer r.mu.Unlock()
	p := partial{Property: r.Prop, Part: r.Part, Tier: tier(), Seed: seedEnv(), Shard: shardEnv(), Evaluations: r.evals, Cases: r.cases,
		Distinct: len(r.nontriv), Classes: r.classes, Excluded: r.excluded, KFSeen: r.kfSeen, Samples: r.samples, Extra: r.Extra,
		Exhaustive: r.Exhaust, Rule: rule, Assumptions: assumptions, WallS: time.Since(r.start).Seconds(), Violations: r.violation, Requested: requested, RapidCases: r.rapidRun}
	base := fmt.Sprintf("%s-%s-%d", r.Prop, r.Part, shardEnv())
	raw, _ := json.MarshalIndent(p, "", " ")
	_ = os.WriteFile(filepath.Join(out, base+".partial.json"), raw, 0o644)
	hs := make([]uint64, 0, len(r.nontriv))
	for h := range r.nontriv {
		hs = append(hs, h)
	}
	sort.Slice(hs, func(i, j int) bool { return hs[i] < hs[j] })
	f, err := os.Create(filepath.Join(out, base+".hashes.bin"))
	if err == nil {
		w := bufio.NewWriter(f)
		var buf [8]byte
		for _, h := range hs {
			binary.LittleEndian.PutUint64(buf[:], h)
			w.Write(buf[:])
		}
		w.Flush()
		f.Close()
	}
}

// ---------------------------------------------------------------------------
// known findings

type kfEntry struct {
	State    string // open | fixed
	Property string
	Sig      string
	Text     string
}

var (
	kfOnce sync.Once
	kfList []kfEntry
)

func loadKF() []kfEntry {
	kfOnce.Do(func() {
		raw, err := os.ReadFile(filepath.Join(verifRoot(), "KNOWN_FINDINGS.txt"))
		if err != nil {
			return
		}
		for _, line := range strings.Split(string(raw), "\n") {
			line = strings.TrimSpace(line)
			if line == "" || strings.HasPrefix(line, "#") {
				continue
			}
			var e kfEntry
			switch {
			case strings.HasPrefix(line, "open:"):
				e.State = "open"
				line = strings.TrimSpace(strings.TrimPrefix(line, "open:"))
			case strings.HasPrefix(line, "fixed:"):
				e.State = "fixed"
				line = strings.TrimSpace(strings.TrimPrefix(line, "fixed:"))
			default:
				continue
			}
			fields := strings.Fields(line)
			rest := []string{}
			for _, f := range fields {
				switch {
				case strings.HasPrefix(f, "property=") && e.Property == "":
					e.Property = strings.TrimPrefix(f, "property=")
				case strings.HasPrefix(f, "signature=") && e.Sig == "":
					e.Sig = strings.TrimPrefix(f, "signature=")
				default:
					rest = append(rest, f)
				}
			}
			e.Text = strings.Join(rest, " ")
			kfList = append(kfList, e)
		}
	})
	return kfList
}

// kfOpen reports whether signature sig is listed as an open known finding
// for property prop.
func kfOpen(prop, sig string) (string, bool) {
	for _, e := range loadKF() {
		if e.State == "open" && e.Property == prop && e.Sig == sig {
			return e.Text, true
		}
	}
	return "", false
}

// ---------------------------------------------------------------------------
// generic property runner

type replayFile struct {
	Property string          `json:"property"`
	Part     string          `json:"part,omitempty"`
	Msg      string          `json:"discrepancy,omitempty"`
	Seed     int64           `json:"seed,omitempty"`
	Case     json.RawMessage `json:"case"`
}

// Prop bundles generator, oracle and reporting for one property.
type Prop[C any] struct {
	ID          string
	Part        string
	Rule        string
	Assumptions []string
	Gen         func(t *rapid.T) C
	// Check evaluates the oracle on one case. It records statistics in rec
	// and returns nil when the property holds on the case.
	Check func(c C, rec *Recorder) *Disc
}

func writeReplay(prop, part string, c any, d *Disc) string {
	dir := filepath.Join(verifRoot(), "replays")
	_ = os.MkdirAll(dir, 0o755)
	raw, _ := json.Marshal(c)
	rf := replayFile{Property: prop, Part: part, Msg: d.Msg, Seed: seedEnv(), Case: raw}
	out, _ := json.MarshalIndent(rf, "", " ")
	name := fmt.Sprintf("%s-%s-%016x.json", prop, part, h64(string(raw)))
	path := filepath.Join(dir, name)
	_ = os.WriteFile(path, out, 0o644)
	return path
}

var printMu sync.Mutex

func reportViolation(prop, path string, d *Disc) {
	printMu.Lock()
	defer printMu.Unlock()
	fmt.Printf("VIOLATION property=%s replay=%s\n", prop, path)
	fmt.Printf("  detail: %s\n", abbrev(d.Msg, 2000))
}

func reportKF(rec *Recorder) {
	rec.mu.Lock()
	defer rec.mu.Unlock()
	sigs := make([]string, 0, len(rec.kfSeen))
	for s := range rec.kfSeen {
		sigs = append(sigs, s)
	}
	sort.Strings(sigs)
	for _, s := range sigs {
		text, _ := kfOpen(rec.Prop, s)
		fmt.Printf("KNOWN-FINDING: property=%s signature=%s %s (observed %d times, e.g. %s)\n", rec.Prop, s, text, rec.excluded[s], abbrev(rec.kfSeen[s], 300))
	}
}

// handle applies the known-findings filter to a discrepancy: an open known
// finding is counted and the search continues; anything else is returned.
func handle(prop string, rec *Recorder, d *Disc) *Disc {
	if d == nil {
		return nil
	}
	if d.KF != "" {
		if _, ok := kfOpen(prop, d.KF); ok {
			rec.Excluded(d.KF, d.Msg)
			return nil
		}
	}
	return d
}

// safely turns a panic raised by the code under test (or by the oracle) into
// a discrepancy: a request or call that panics certainly did not behave as
// the property demands.
func safely(f func() *Disc) (d *Disc) {
	defer func() {
		if r := recover(); r != nil {
			buf := make([]byte, 4096)
			buf = buf[:runtime.Stack(buf, false)]
			d = discf("panic: %v\n%s", r, buf)
		}
	}()
	return f()
}

// Run executes the property: replay mode, then corpus, then rapid.
func (p Prop[C]) Run(t *testing.T) {
	part := p.Part
	if part == "" {
		part = "rapid"
	}
	rec := NewRecorder(p.ID, part)
	requested := rapidChecksFlag()
	defer func() {
		reportKF(rec)
		rec.Flush(p.Rule, p.Assumptions, requested)
	}()

	if path := os.Getenv("VERIF_REPLAY"); path != "" {
		c, err := loadCase[C](path)
		if err != nil {
			t.Fatalf("replay: %v", err)
		}
		rec.Case(c)
		if d := handle(p.ID, rec, safely(func() *Disc { return p.Check(c, rec) })); d != nil {
			rec.violation++
			reportViolation(p.ID, path, d)
			t.FailNow()
		}
		fmt.Printf("replay %s: property holds on this case\n", path)
		return
	}

	// corpus tier: saved cases, replayed without the library
	if shardEnv() == 0 {
		files, _ := filepath.Glob(filepath.Join(verifRoot(), "corpus", p.ID, "*.json"))
		sort.Strings(files)
		for _, f := range files {
			c, cpart, err := loadCasePart[C](f)
			if err != nil || (cpart != "" && cpart != part) {
				continue // belongs to another part of the same property
			}
			rec.Case(c)
			rec.Class("corpus")
			if d := handle(p.ID, rec, safely(func() *Disc { return p.Check(c, rec) })); d != nil {
				rec.violation++
				reportViolation(p.ID, f, d)
				t.FailNow()
			}
		}
	}

	var (
		last  *C
		lastD *Disc
	)
	defer func() {
		if last != nil {
			rec.violation++
			path := writeReplay(p.ID, part, *last, lastD)
			reportViolation(p.ID, path, lastD)
		}
	}()
	rapid.Check(t, func(rt *rapid.T) {
		c := p.Gen(rt)
		rec.Case(c)
		rec.mu.Lock()
		rec.rapidRun++
		rec.mu.Unlock()
		if d := handle(p.ID, rec, safely(func() *Disc { return p.Check(c, rec) })); d != nil {
			cc := c
			last, lastD = &cc, d
			rt.Fatalf("%s", abbrev(d.Msg, 1500))
		}
	})
}

func loadCase[C any](path string) (C, error) {
	c, _, err := loadCasePart[C](path)
	return c, err
}

func loadCasePart[C any](path string) (C, string, error) {
	var c C
	raw, err := os.ReadFile(path)
	if err != nil {
		return c, "", err
	}
	var rf replayFile
	if err := json.Unmarshal(raw, &rf); err != nil {
		return c, "", err
	}
	c, err = decodeCase[C](rf, path)
	return c, rf.Part, err
}

func decodeCase[C any](rf replayFile, path string) (C, error) {
	var c C
	if len(rf.Case) == 0 {
		return c, fmt.Errorf("no case in %s", path)
	}
	if err := json.Unmarshal(rf.Case, &c); err != nil {
		return c, err
	}
	return c, nil
}

func rapidChecksFlag() int {
	for _, a := range os.Args {
		if strings.HasPrefix(a, "-rapid.checks=") {
			n, _ := strconv.Atoi(strings.TrimPrefix(a, "-rapid.checks="))
			return n
		}
	}
	return 100
}

// FuzzProp exposes a property to Go's native coverage-guided fuzzer: the
// fuzzer's bytes become rapid's bit stream (rapid.MakeFuzz), so coverage
// feedback from the code under test steers the same generator and the same
// oracle that the rapid part uses. A failing case is also written as a JSON
// replay file whose path is printed after the marker VERIF-REPLAY.
func FuzzProp[C any](f *testing.F, p Prop[C]) {
	rec := NewRecorder(p.ID, "fuzz")
	f.Add([]byte{})
	f.Add([]byte{0xff, 0xff, 0xff, 0xff, 0xff, 0xff, 0xff, 0xff, 0x55, 0x55, 0x55, 0x55, 0xaa, 0xaa, 0xaa, 0xaa})
	f.Add([]byte("\x01\x02\x03\x04\x05\x06\x07\x08\x09\x0a\x0b\x0c\x0d\x0e\x0f\x10\x11\x12\x13\x14\x15\x16\x17\x18\x19\x1a\x1b\x1c\x1d\x1e\x1f\x20"))
	f.Fuzz(rapid.MakeFuzz(func(rt *rapid.T) {
		c := p.Gen(rt)
		if d := handle(p.ID, rec, safely(func() *Disc { return p.Check(c, rec) })); d != nil {
			path := writeReplay(p.ID, "rapid", c, d)
			rt.Fatalf("VERIF-REPLAY %s :: %s", path, abbrev(d.Msg, 1200))
		}
	}))
}
