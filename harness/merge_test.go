package harness

import (
	"encoding/binary"
	"encoding/json"
	"os"
	"path/filepath"
	"sort"
	"strconv"
	"strings"
	"testing"
)

// TestZZMerge is not a check: the driver calls it to merge the partial
// evidence written by the shards of one run into evidence/<id>.json.
func TestZZMerge(t *testing.T) {
	dir := os.Getenv("VERIF_MERGE_DIR")
	if dir == "" {
		t.Skip("merge mode only")
	}
	outPath := os.Getenv("VERIF_EVIDENCE")
	files, _ := filepath.Glob(filepath.Join(dir, "*.partial.json"))
	sort.Strings(files)
	var (
		evals, cases   int64
		classes        = map[string]int64{}
		excluded       = map[string]int64{}
		samples        []json.RawMessage
		rules          []string
		assumptions    []string
		seenRule       = map[string]bool{}
		seenAss        = map[string]bool{}
		parts          []map[string]any
		violations     int
		exhaustiveAny  bool
		requested, ran int64
		extra          = map[string]any{}
	)
	for _, f := range files {
		raw, err := os.ReadFile(f)
		if err != nil {
			continue
		}
		var p partial
		if json.Unmarshal(raw, &p) != nil {
			continue
		}
		evals += p.Evaluations
		cases += p.Cases
		for k, v := range p.Classes {
			classes[p.Part+":"+k] += v
		}
		for k, v := range p.Excluded {
			excluded[k] += v
		}
		if p.Shard == 0 || len(samples) < 4 {
			for _, s := range p.Samples {
				if len(samples) < 14 {
					samples = append(samples, s)
				}
			}
		}
		if !seenRule[p.Rule] && p.Rule != "" {
			seenRule[p.Rule] = true
			rules = append(rules, "["+p.Part+"] "+p.Rule)
		}
		for _, a := range p.Assumptions {
			if !seenAss[a] {
				seenAss[a] = true
				assumptions = append(assumptions, a)
			}
		}
		violations += p.Violations
		if p.Exhaustive {
			exhaustiveAny = true
		}
		if p.Requested > 0 && p.Part != "exhaustive" {
			requested += int64(p.Requested)
			ran += p.RapidCases
		}
		for k, v := range p.Extra {
			extra[p.Part+":"+k] = v
		}
		parts = append(parts, map[string]any{"part": p.Part, "shard": p.Shard, "cases": p.Cases, "evaluations": p.Evaluations,
			"distinct_nontrivial_in_shard": p.Distinct, "wall_s": p.WallS, "exhaustive": p.Exhaustive, "rapid_checks_requested": p.Requested})
	}
	// union of the 64-bit hashes of non-trivial cases over all shards
	var all []uint64
	hfiles, _ := filepath.Glob(filepath.Join(dir, "*.hashes.bin"))
	for _, f := range hfiles {
		raw, err := os.ReadFile(f)
		if err != nil {
			continue
		}
		for i := 0; i+8 <= len(raw); i += 8 {
			all = append(all, binary.LittleEndian.Uint64(raw[i:]))
		}
	}
	sort.Slice(all, func(i, j int) bool { return all[i] < all[j] })
	distinct := 0
	for i, h := range all {
		if i == 0 || h != all[i-1] {
			distinct++
		}
	}
	seed, _ := strconv.ParseInt(envOr("VERIF_SEED", "1"), 10, 64)
	wall, _ := strconv.ParseFloat(envOr("VERIF_WALL", "0"), 64)
	if v := os.Getenv("VERIF_VIOLATIONS"); v != "" {
		if n, err := strconv.Atoi(v); err == nil && n > violations {
			violations = n
		}
	}
	cov := map[string]any{
		"evaluations":             evals,
		"distinct_nontrivial":     distinct,
		"rule":                    strings.Join(rules, " || "),
		"samples":                 samples,
		"generated_cases":         cases,
		"class_histogram":         classes,
		"excluded_known_findings": excluded,
		"shards":                  parts,
		"run_status":              envOr("VERIF_STATUS", "ok"),
	}
	if requested > 0 {
		cov["rapid_cases_requested"] = requested
		cov["rapid_cases_run"] = ran
	}
	if len(extra) > 0 {
		cov["extra"] = extra
	}
	if exhaustiveAny {
		// only a sub-space is exhaustive; the top-level flag stays unset
		cov["exhaustive_subspace"] = true
	}
	ev := map[string]any{
		"property_id": os.Getenv("VERIF_PROP"),
		"tier":        tier(),
		"seed":        seed,
		"level":       "exploration",
		"coverage":    cov,
		"assumptions": assumptions,
		"wall_s":      wall,
		"violations":  violations,
	}
	raw, _ := json.MarshalIndent(ev, "", " ")
	if err := os.MkdirAll(filepath.Dir(outPath), 0o755); err != nil {
		t.Fatal(err)
	}
	if err := os.WriteFile(outPath, raw, 0o644); err != nil {
		t.Fatal(err)
	}
}
