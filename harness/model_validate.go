package harness

import (
	"errors"
	"fmt"
	"math/big"
	"sort"
	"strings"

	"github.com/jub0bs/cors/cfgerrors"
	"pgregory.net/rapid"
)

// ---------------------------------------------------------------------------
// Validator oracle over labelled atoms: every string below carries its ground
// truth, taken from the Config / ExtraConfig / cfgerrors documentation.

type atomClass int

const (
	aValid atomClass = iota
	aInvalid
	aGrey
)

// ---- origin atoms ---------------------------------------------------------

type originAtom struct {
	S        string
	Insecure bool // scheme not https, host neither localhost nor loopback IP
	PSL      bool // *.<public suffix>
	Invalid  bool
	Reason   string // pinned Reason for invalid atoms ("" = invalid or prohibited)
}

var originAtoms = func() []originAtom {
	var as []originAtom
	for _, s := range secureOriginAtoms {
		as = append(as, originAtom{S: s})
	}
	for _, s := range insecureOriginAtoms {
		as = append(as, originAtom{S: s, Insecure: true})
	}
	for _, s := range pslOriginAtoms {
		as = append(as, originAtom{S: s, PSL: true})
	}
	for _, s := range []string{"http://*.com", "http://*.co.uk:8080", "http://*.com.:*", "ws://*.github.io"} {
		as = append(as, originAtom{S: s, Insecure: true, PSL: true})
	}
	// public suffixes of less common shapes (publicsuffix.org: wildcard rule *.kobe.jp with exception !city.kobe.jp, private-section entries)
	for _, s := range []string{"https://*.foo.kobe.jp", "https://*.s3.amazonaws.com", "https://*.blogspot.com:8443", "https://*.co.jp.", "https://*.uk"} {
		as = append(as, originAtom{S: s, PSL: true})
	}
	for _, s := range []string{"https://*.city.kobe.jp", "https://*.example.co.uk", "https://*.foo.github.io", "https://*.amazonaws.com"} {
		as = append(as, originAtom{S: s})
	}
	inv := func(reason string, ss ...string) {
		for _, s := range ss {
			as = append(as, originAtom{S: s, Invalid: true, Reason: reason})
		}
	}
	inv("prohibited", "null", "file:///somepath", "file://example.com")
	// Punycode labels that decode to right-to-left script and violate the IDNA Bidi rule (RFC 5893): not "valid Punycode"
	inv("", "https://1a.xn--9dbne9b.com", "https://*.xn--9dbne9b.1a.example.com", "https://xn--a-bicuf1d.com")
	// non-ASCII letters that Unicode case mapping turns into ASCII (Kelvin sign, dotted capital I, long s), in host and scheme
	inv("", "https://\u212aexample.com", "https://example.\u212aom", "http\u017f://example.com", "https://ex\u0130mple.com", "https://*.\u212a.example.com")
	// labels that start or end with a hyphen, and an over-long label in last position (hyphen-free host)
	inv("", "https://-example.com", "https://example-.com", "https://*.example-.com", "http://my-service-:8080", "https://www.-a.com", "https://www.example."+strings.Repeat("a", 64), "https://"+strings.Repeat("a", 64))
	// bytes that belong to no part of an origin: punctuation inside scheme, host and port; number syntaxes a lenient integer parser accepts
	inv("", "http,https://example.com", "ht!tp://example.com", "h,ttp://localhost:8080", "https,://example.com", "+http://example.com", "http;x://example.com", "http~://example.com",
		"https://exa,mple.com", "https://ex+ample.com", "https://example.com,", "https://a;b.example.com", "https://*.exa,mple.com", "https://example.c(m", "https://ex=ample.com", "https://example.com~",
		"https://example.com:8_0", "https://example.com:1e3", "https://example.com:0x50", "https://example.com:8,0", "https://example.com:80a", "https://example.com: 80", "https://example.com:８０")
	// IPv4 in other than dotted-quad notation, lower case ("http://0xFF000000 // prohibited")
	inv("", "http://0xff000000", "http://0x7f000001:8080", "http://127.0.0.0x1", "http://0x7f.0x0.0x0.0x1", "http://127.0xa", "http://*.0x7f000001", "http://2130706433", "http://0177.0.0.1", "http://127.1")
	inv("", strings.Repeat("s", 65)+"://example.com", "a"+strings.Repeat("+", 64)+"://localhost:8080")
	inv("", "https://www.résumé.com", "https://Example.com", "HTTPS://example.com", "https://user@example.com", "https://user:pw@example.com",
		"https://example.com/", "https://example.com/path", "https://example.com?q=1", "https://example.com#f", " https://example.com", "https://example.com ",
		"https://example.com:", "https://example.com:0", "https://example.com:65536", "https://example.com:123456", "https://example.com:080",
		"http://example.com:80", "https://example.com:443", "http://0xFF000000", "http://[0:0:0:0:0:0:0:0001]:9090",
		"http://[0000:0000:0000:0000:0000:0000:0000:0001]:9090", "http://[::ffff:1.2.3.4]", "http://[fe80::1%eth0]", "http://[::1", "http://[::A]",
		"https://foo.*.example.com", "https://**.example.com", "https://*example.com", "https://example.com:8*", "https://example.com:*8", "http://*.127.0.0.1",
		"https://*", "https://", "://example.com", "example.com", "https//example.com", "https:/example.com", "", "https://exa mple.com", "https://a..b",
		"https://.example.com", "http://127.0.0.01", "http://1.2.3", "http://256.1.1.1", "https://example.com:-1", "https://example.com:+80",
		"https://"+strings.Repeat("a.", 127)+"com",  // 257-byte domain
		"https://"+strings.Repeat("a", 64)+".com",   // 64-byte label
		"https://*."+strings.Repeat("a.", 125)+"ab", // *. before a 252-byte domain
		"1https://example.com", "https://exam­ple.com", "https://example.com\x00", "https://*.*.example.com", "*.example.com", "https://*.")
	return as
}()

// ---- method atoms ---------------------------------------------------------

type nameAtom struct {
	S      string
	Reason string // "" valid, else invalid|forbidden|prohibited
}

var methodAtomsL = []nameAtom{
	{longMethod, ""}, {hugeMethod, ""}, {"*", ""}, {"GET", ""}, {"POST", ""}, {"HEAD", ""}, {"PUT", ""}, {"put", ""}, {"Put", ""}, {"DELETE", ""}, {"delete", ""}, {"PATCH", ""}, {"patch", ""},
	{"PURGE", ""}, {"OPTIONS", ""}, {"options", ""}, {"Foo", ""}, {"QUERY", ""}, {"get", ""}, {"pOst", ""}, {"Head", ""}, {"post", ""}, {"oPtIoNs", ""}, {"M-SEARCH", ""}, {"a!#$%&'*+-.^_`|~9", ""},
	{"CONNECT", "forbidden"}, {"TRACE", "forbidden"}, {"TRACK", "forbidden"}, {"connect", "forbidden"}, {"Trace", "forbidden"}, {"tRaCk", "forbidden"},
	{"", "invalid"}, {"GE T", "invalid"}, {"GET,POST", "invalid"}, {"résumé", "invalid"}, {"PO\x00ST", "invalid"}, {"(GET)", "invalid"}, {"GET/", "invalid"},
	{" GET", "invalid"}, {"GET\t", "invalid"}, {"G:T", "invalid"},
	// non-ASCII letters whose Unicode case mapping or folding lands on ASCII (Kelvin sign, dotted capital I, long s)
	{"TRAC\u212a", "invalid"}, {"\u212aEY", "invalid"}, {"DELETE\u0130", "invalid"}, {"\u017fEARCH", "invalid"},
}

// ---- request-header atoms -------------------------------------------------

var reqHdrAtomsL = []nameAtom{
	{longHeader, ""}, {hugeHeader, ""}, {hugeHeader2, ""}, {hugeHeader3, ""}, {"Sec-" + hugeHeader, "forbidden"}, {strings.ToLower(longHeader[:64]), ""}, {longHeader[:65], ""}, {"Proxy-" + longHeader, "forbidden"}, {"*", ""}, {"Authorization", ""}, {"authorization", ""}, {"AUTHORIZATION", ""}, {"Content-Type", ""}, {"content-type", ""}, {"X-Foo", ""}, {"x-foo", ""},
	{"X-Bar", ""}, {"x-a", ""}, {"Accept", ""}, {"X-Requested-With", ""}, {"foo", ""}, {"Cache-Control", ""}, {"If-None-Match", ""}, {"x_under", ""}, {"Secx", ""}, {"proxy", ""},
	{"Accept-Charset", "forbidden"}, {"accept-encoding", "forbidden"}, {"Access-Control-Request-Headers", "forbidden"}, {"access-control-request-method", "forbidden"},
	{"Access-Control-Request-Private-Network", "forbidden"}, {"Connection", "forbidden"}, {"Content-Length", "forbidden"}, {"Cookie", "forbidden"}, {"cookie2", "forbidden"},
	{"Date", "forbidden"}, {"DNT", "forbidden"}, {"Expect", "forbidden"}, {"Host", "forbidden"}, {"Keep-Alive", "forbidden"}, {"Origin", "forbidden"}, {"oRiGiN", "forbidden"},
	{"Referer", "forbidden"}, {"Set-Cookie", "forbidden"}, {"TE", "forbidden"}, {"Trailer", "forbidden"}, {"Transfer-Encoding", "forbidden"}, {"Upgrade", "forbidden"},
	{"Via", "forbidden"}, {"Proxy-Foo", "forbidden"}, {"proxy-", "forbidden"}, {"PROXY-Authorization", "forbidden"}, {"Sec-Fetch-Mode", "forbidden"}, {"SEC-x", "forbidden"}, {"sec-", "forbidden"},
	{"Access-Control-Allow-Origin", "prohibited"}, {"access-control-allow-credentials", "prohibited"}, {"Access-Control-Allow-Methods", "prohibited"},
	{"Access-Control-Allow-Headers", "prohibited"}, {"ACCESS-CONTROL-ALLOW-PRIVATE-NETWORK", "prohibited"}, {"Access-Control-Max-Age", "prohibited"},
	{"Access-Control-Expose-Headers", "prohibited"},
	{"", "invalid"}, {"X Foo", "invalid"}, {"x-foo:", "invalid"}, {"résumé", "invalid"}, {"a,b", "invalid"}, {"x\x00", "invalid"}, {" x-foo", "invalid"}, {"x-foo ", "invalid"}, {"(x)", "invalid"},
	{"X-Api-\u212aey", "invalid"}, {"x-\u212a", "invalid"}, {"Cook\u0130e", "invalid"}, {"\u017fec-fetch-mode", "invalid"}, {"Author\u0130zation", "invalid"}, {"x-foo\u0131", "invalid"},
}

// ---- response-header atoms ------------------------------------------------

var resHdrAtomsL = []nameAtom{
	{longHeader, ""}, {hugeHeader, ""}, {longHeader[:65], ""}, {"*", ""}, {"X-Resp", ""}, {"x-resp", ""}, {"Content-Type", ""}, {"Cache-Control", ""}, {"X-Other", ""}, {"ETag", ""}, {"Content-Length", ""}, {"Location", ""},
	{"Expires", ""}, {"pragma", ""}, {"Last-Modified", ""}, {"content-language", ""}, {"X-B", ""}, {"Cookie", ""}, {"Authorization", ""},
	{"Set-Cookie", "forbidden"}, {"set-cookie2", "forbidden"}, {"SET-COOKIE", "forbidden"}, {"Set-Cookie2", "forbidden"},
	{"Origin", "prohibited"}, {"origin", "prohibited"}, {"Access-Control-Request-Method", "prohibited"}, {"access-control-request-headers", "prohibited"},
	{"Access-Control-Request-Private-Network", "prohibited"},
	{"", "invalid"}, {"X Resp", "invalid"}, {"x-resp:", "invalid"}, {"résumé", "invalid"}, {"a,b", "invalid"}, {"x\x00", "invalid"}, {"x-resp\n", "invalid"},
	{"\u017fet-cookie", "invalid"}, {"X-\u212aey", "invalid"}, {"Or\u0130gin", "invalid"}, {"x-re\u017fp", "invalid"},
}

func findOriginAtom(s string) (originAtom, bool) {
	for _, a := range originAtoms {
		if a.S == s {
			return a, true
		}
	}
	return originAtom{}, false
}

func findName(list []nameAtom, s string) (nameAtom, bool) {
	for _, a := range list {
		if a.S == s {
			return a, true
		}
	}
	// not a listed atom: names drawn from the dictionaries of real-world names or from the token grammar are
	// labelled by the documented rules themselves
	kind := ""
	switch {
	case len(list) > 0 && &list[0] == &methodAtomsL[0]:
		kind = "method"
	case len(list) > 0 && &list[0] == &reqHdrAtomsL[0]:
		kind = "req"
	case len(list) > 0 && &list[0] == &resHdrAtomsL[0]:
		kind = "res"
	}
	if r, ok := classifyName(kind, s); ok {
		return nameAtom{S: s, Reason: r}, true
	}
	return nameAtom{}, false
}

func isTokenString(s string) bool {
	if s == "" {
		return false
	}
	for i := 0; i < len(s); i++ {
		if !isTokenByte(s[i]) {
			return false
		}
	}
	return true
}

func asciiLower(s string) string {
	b := []byte(s)
	for i, c := range b {
		if 'A' <= c && c <= 'Z' {
			b[i] = c + 32
		}
	}
	return string(b)
}

var fetchForbiddenReqHdrs = map[string]bool{"accept-charset": true, "accept-encoding": true, "access-control-request-headers": true, "access-control-request-method": true,
	"access-control-request-private-network": true, "connection": true, "content-length": true, "cookie": true, "cookie2": true, "date": true, "dnt": true, "expect": true, "host": true,
	"keep-alive": true, "origin": true, "referer": true, "set-cookie": true, "te": true, "trailer": true, "transfer-encoding": true, "upgrade": true, "via": true}

// classifyName labels a method or header name that is not a listed atom by the documented rules: not a token ->
// invalid; a forbidden method / a forbidden request-header name of the Fetch standard (the discrete list, the
// proxy- and sec- prefixes) / a forbidden response-header name -> forbidden; a CORS response header listed as
// request header, or Origin / a CORS request header listed as response header -> prohibited; everything else is
// permitted. ok is false where the documentation is silent (Access-Control-* names as exposed headers).
func classifyName(kind, s string) (reason string, ok bool) {
	if kind == "" || s == "*" {
		return "", false
	}
	if !isTokenString(s) {
		return "invalid", true
	}
	l := asciiLower(s)
	switch kind {
	case "method":
		switch strings.ToUpper(s) {
		case "CONNECT", "TRACE", "TRACK":
			return "forbidden", true
		}
		return "", true
	case "req":
		if fetchForbiddenReqHdrs[l] || strings.HasPrefix(l, "proxy-") || strings.HasPrefix(l, "sec-") {
			return "forbidden", true
		}
		switch l {
		case "access-control-allow-origin", "access-control-allow-credentials", "access-control-allow-methods", "access-control-allow-headers",
			"access-control-allow-private-network", "access-control-max-age", "access-control-expose-headers":
			return "prohibited", true
		}
		return "", true
	case "res":
		switch l {
		case "set-cookie", "set-cookie2":
			return "forbidden", true
		case "origin", "access-control-request-method", "access-control-request-headers", "access-control-request-private-network":
			return "prohibited", true
		}
		if strings.HasPrefix(l, "access-control-") {
			return "", false // grey: documented nowhere
		}
		return "", true
	}
	return "", false
}

// names that real deployments list, none of them forbidden or prohibited (the method-override headers are forbidden
// by the Fetch standard only in combination with certain VALUES; the names themselves are permitted)
var realReqHdrNames = []string{"X-HTTP-Method-Override", "X-Method-Override", "X-HTTP-Method", "Accept-Language", "Content-Language", "Range", "If-Match", "If-Modified-Since",
	"If-Unmodified-Since", "If-Range", "X-CSRF-Token", "X-XSRF-TOKEN", "X-Api-Key", "X-Request-Id", "X-Correlation-ID", "Idempotency-Key", "Prefer", "Content-Encoding",
	"Content-Disposition", "Content-MD5", "Pragma", "User-Agent", "X-Forwarded-For", "Forwarded", "From", "Max-Forwards", "Traceparent", "Tracestate", "Baggage", "X-B3-TraceId",
	"Last-Event-ID", "Depth", "Destination", "Overwrite", "Timeout", "Lock-Token", "If", "Slug", "Link", "X-Upload-Content-Type", "X-Goog-Api-Key", "X-Amz-Date",
	"X-Amz-Content-Sha256", "X-Amz-Security-Token", "Priority", "Save-Data", "Downlink", "DPR", "Width", "Viewport-Width", "Device-Memory", "Early-Data", "Accept-Patch",
	"Content-Location", "Content-Range", "Retry-After", "Www-Authenticate", "Securely", "Proxying", "Sec", "Proxy", "Cookies", "Hosts", "Accept-Charsets", "X-Cookie", "X-Sec-Fetch-Site"}

var realResHdrNames = []string{"X-Request-Id", "X-RateLimit-Limit", "X-RateLimit-Remaining", "X-RateLimit-Reset", "Retry-After", "Link", "Content-Range", "Accept-Ranges",
	"Content-Disposition", "Content-Encoding", "Www-Authenticate", "X-Total-Count", "Date", "Server", "Vary", "Age", "Allow", "Alt-Svc", "Server-Timing", "Timing-Allow-Origin",
	"X-Powered-By", "Strict-Transport-Security", "Set-Cookies", "Origins", "Traceparent", "Grpc-Status", "Grpc-Message", "Digest", "Sourcemap", "Content-Location"}

var realMethodNames = []string{"PROPFIND", "PROPPATCH", "MKCOL", "COPY", "MOVE", "LOCK", "UNLOCK", "REPORT", "SEARCH", "LINK", "UNLINK", "CHECKOUT", "MERGE", "NOTIFY", "SUBSCRIBE",
	"BREW", "TRACES", "CONNECTS", "TRACKING", "XTRACE", "Connecting", "propfind"}

// genTokenName draws a name from the token grammar that the documented rules permit.
func genTokenName(t *rapid.T, kind string) string {
	const tchar = "abcdefghijklmnopqrstuvwxyzABCDEFGHIJKLMNOPQRSTUVWXYZ0123456789!#$%&'*+-.^_`|~"
	for {
		n := 1 + uniform(t, "toklen", 20)
		b := make([]byte, n)
		for i := range b {
			if chance(t, "tokplain", 70) {
				b[i] = tchar[uniform(t, "tokletter", 52)]
			} else {
				b[i] = tchar[uniform(t, "tokany", len(tchar))]
			}
		}
		s := string(b)
		if kind == "req" || kind == "res" {
			// header names that end up in Access-Control-Request-Headers are lower-cased by browsers; avoid the one
			// byte whose lower-casing is undefined territory - none: all tchar are fine
		}
		if r, ok := classifyName(kind, s); ok && r == "" && s != "*" {
			return s
		}
	}
}

// ---- expected errors ------------------------------------------------------

// ExpErr is the canonical text form of one expected/observed configuration
// error: type, then the fields the documentation pins.
type ExpErr string

func expOriginInvalid(v, reason string) ExpErr {
	return ExpErr(fmt.Sprintf("UnacceptableOriginPattern|%q|%s", v, reason))
}

// Violations returns the multiset of errors the documentation prescribes for
// c, assuming every list entry is a labelled atom. ok is false when some
// entry is not a known atom.
func Violations(c Cfg) (exp []ExpErr, ok bool) {
	ok = true
	if c.Status != 0 && (c.Status < 200 || c.Status > 299) {
		exp = append(exp, ExpErr(fmt.Sprintf("PreflightSuccessStatusOutOfBounds|%d|204|200|299", c.Status)))
	}
	if c.PNA && c.PNANoCORS {
		exp = append(exp, "IncompatiblePrivateNetworkAccessModes")
	}
	pna := c.PNA || c.PNANoCORS
	if len(c.Origins) == 0 {
		exp = append(exp, expOriginInvalid("", "missing"))
	}
	for _, o := range c.Origins {
		s := string(o)
		if s == "*" {
			if c.Credentialed {
				exp = append(exp, `IncompatibleOriginPattern|"*"|credentialed`)
			}
			if pna {
				exp = append(exp, `IncompatibleOriginPattern|"*"|pna`)
			}
			continue
		}
		a, found := findOriginAtom(s)
		if !found {
			ok = false
			continue
		}
		if a.Invalid {
			exp = append(exp, expOriginInvalid(s, a.Reason))
			continue
		}
		if a.Insecure && !c.TolInsecure {
			if c.Credentialed {
				exp = append(exp, ExpErr(fmt.Sprintf("IncompatibleOriginPattern|%q|credentialed", s)))
			}
			if pna {
				exp = append(exp, ExpErr(fmt.Sprintf("IncompatibleOriginPattern|%q|pna", s)))
			}
		}
		if a.PSL && !c.TolPSL {
			exp = append(exp, ExpErr(fmt.Sprintf("IncompatibleOriginPattern|%q|psl", s)))
		}
	}
	for _, m := range c.Methods {
		a, found := findName(methodAtomsL, string(m))
		if !found {
			ok = false
			continue
		}
		if a.Reason != "" {
			exp = append(exp, ExpErr(fmt.Sprintf("UnacceptableMethod|%q|%s", a.S, a.Reason)))
		}
	}
	for _, h := range c.RequestHeaders {
		a, found := findName(reqHdrAtomsL, string(h))
		if !found {
			ok = false
			continue
		}
		if a.Reason != "" {
			exp = append(exp, ExpErr(fmt.Sprintf("UnacceptableHeaderName|%q|request|%s", a.S, a.Reason)))
		}
	}
	if c.MaxAge < -1 || c.MaxAge > 86400 {
		exp = append(exp, ExpErr(fmt.Sprintf("MaxAgeOutOfBounds|%d|5|86400|-1", c.MaxAge)))
	}
	for _, h := range c.ResponseHeaders {
		s := string(h)
		if s == "*" {
			if c.Credentialed {
				exp = append(exp, "IncompatibleWildcardResponseHeaderName")
			}
			continue
		}
		a, found := findName(resHdrAtomsL, s)
		if !found {
			ok = false
			continue
		}
		if a.Reason != "" {
			exp = append(exp, ExpErr(fmt.Sprintf("UnacceptableHeaderName|%q|response|%s", a.S, a.Reason)))
		}
	}
	sort.Slice(exp, func(i, j int) bool { return exp[i] < exp[j] })
	return exp, ok
}

// ObservedErrors flattens err with cfgerrors.All and renders each leaf in
// the same canonical form. bad describes the first leaf that is not a
// non-nil pointer to an exported cfgerrors type with a "cors: " message.
func ObservedErrors(err error) (obs []ExpErr, bad string) {
	if err == nil {
		return nil, ""
	}
	for e := range cfgerrors.All(err) {
		if e == nil {
			return nil, "nil error yielded"
		}
		if !strings.HasPrefix(e.Error(), "cors: ") {
			return nil, fmt.Sprintf("message %q does not start with \"cors: \"", e.Error())
		}
		switch v := e.(type) {
		case *cfgerrors.UnacceptableOriginPatternError:
			if v == nil {
				return nil, "nil *UnacceptableOriginPatternError"
			}
			obs = append(obs, expOriginInvalid(v.Value, v.Reason))
		case *cfgerrors.UnacceptableMethodError:
			if v == nil {
				return nil, "nil *UnacceptableMethodError"
			}
			obs = append(obs, ExpErr(fmt.Sprintf("UnacceptableMethod|%q|%s", v.Value, v.Reason)))
		case *cfgerrors.UnacceptableHeaderNameError:
			if v == nil {
				return nil, "nil *UnacceptableHeaderNameError"
			}
			obs = append(obs, ExpErr(fmt.Sprintf("UnacceptableHeaderName|%q|%s|%s", v.Value, v.Type, v.Reason)))
		case *cfgerrors.MaxAgeOutOfBoundsError:
			if v == nil {
				return nil, "nil *MaxAgeOutOfBoundsError"
			}
			obs = append(obs, ExpErr(fmt.Sprintf("MaxAgeOutOfBounds|%d|%d|%d|%d", v.Value, v.Default, v.Max, v.Disable)))
		case *cfgerrors.PreflightSuccessStatusOutOfBoundsError:
			if v == nil {
				return nil, "nil *PreflightSuccessStatusOutOfBoundsError"
			}
			obs = append(obs, ExpErr(fmt.Sprintf("PreflightSuccessStatusOutOfBounds|%d|%d|%d|%d", v.Value, v.Default, v.Min, v.Max)))
		case *cfgerrors.IncompatibleOriginPatternError:
			if v == nil {
				return nil, "nil *IncompatibleOriginPatternError"
			}
			obs = append(obs, ExpErr(fmt.Sprintf("IncompatibleOriginPattern|%q|%s", v.Value, v.Reason)))
		case *cfgerrors.IncompatiblePrivateNetworkAccessModesError:
			if v == nil {
				return nil, "nil *IncompatiblePrivateNetworkAccessModesError"
			}
			obs = append(obs, "IncompatiblePrivateNetworkAccessModes")
		case *cfgerrors.IncompatibleWildcardResponseHeaderNameError:
			if v == nil {
				return nil, "nil *IncompatibleWildcardResponseHeaderNameError"
			}
			obs = append(obs, "IncompatibleWildcardResponseHeaderName")
		default:
			return nil, fmt.Sprintf("error of unexported/foreign type %T: %v", e, e)
		}
	}
	sort.Slice(obs, func(i, j int) bool { return obs[i] < obs[j] })
	return obs, ""
}

// matchErrors compares expected and observed multisets. For malformed origin
// patterns whose Reason the documentation does not pin (expected reason ""),
// either "invalid" or "prohibited" is accepted.
func matchErrors(exp, obs []ExpErr) string {
	used := make([]bool, len(obs))
	for _, e := range exp {
		found := false
		for i, o := range obs {
			if used[i] {
				continue
			}
			if o == e || (strings.HasPrefix(string(e), "UnacceptableOriginPattern|") && strings.HasSuffix(string(e), "|") &&
				(string(o) == string(e)+"invalid" || string(o) == string(e)+"prohibited")) {
				used[i] = true
				found = true
				break
			}
		}
		if !found {
			return fmt.Sprintf("violation %s not reported", e)
		}
	}
	for i, o := range obs {
		if !used[i] {
			return fmt.Sprintf("error %s corresponds to no violation", o)
		}
	}
	return ""
}

var errUnused = errors.New("unused")

// ---------------------------------------------------------------------------
// generator of configurations built from labelled atoms

type atomMix int

const (
	mixAllValid atomMix = iota
	mixOneViolation
	mixMany
)

func pickOriginAtom(t *rapid.T, wantInvalid bool) string {
	for {
		a := pick(t, "originatom", originAtoms)
		if a.Invalid == wantInvalid {
			return a.S
		}
	}
}

func pickName(t *rapid.T, label string, list []nameAtom, wantBad bool) string {
	if !wantBad && chance(t, label+"_open", 30) {
		// beyond the listed atoms: names real deployments list, and names straight from the token grammar
		kind, dict := "method", realMethodNames
		switch {
		case &list[0] == &reqHdrAtomsL[0]:
			kind, dict = "req", realReqHdrNames
		case &list[0] == &resHdrAtomsL[0]:
			kind, dict = "res", realResHdrNames
		}
		if chance(t, label+"_dict", 60) {
			return pick(t, label+"_real", dict)
		}
		return genTokenName(t, kind)
	}
	var pool []string
	for _, a := range list {
		if (a.Reason != "") == wantBad && a.S != "*" {
			pool = append(pool, a.S)
		}
	}
	return pick(t, label, pool)
}

// genAtomCfg draws a configuration made of labelled atoms only. badPct is
// the per-entry probability of planting a bad atom; cross-field violations
// (credentials x *, PNA x *, insecure, psl, both PNA modes, response-header
// wildcard x credentials, integer bounds) arise from the switches.
func genAtomCfg(t *rapid.T, mix atomMix) Cfg {
	if mix == mixAllValid {
		return genValidAtomCfg(t)
	}
	badPct := 30
	if mix == mixOneViolation {
		badPct = 0
	}
	var c Cfg
	c.Credentialed = chance(t, "cred", 50)
	c.PNA = chance(t, "pna", 35)
	c.PNANoCORS = chance(t, "pnanocors", 30)
	c.TolInsecure = chance(t, "tolins", 35)
	c.TolPSL = chance(t, "tolpsl", 35)
	if mix == mixOneViolation {
		c = genValidAtomCfg(t)
	}
	fill := func() {
		n := listLen(t, "norigins", 0, 4)
		if mix == mixOneViolation {
			return
		}
		c.Origins = nil
		for i := 0; i < n; i++ {
			switch {
			case chance(t, "ostar", 15):
				c.Origins = append(c.Origins, "*")
			case chance(t, "obad", badPct):
				c.Origins = append(c.Origins, Str(pickOriginAtom(t, true)))
			default:
				c.Origins = append(c.Origins, Str(pickOriginAtom(t, false)))
			}
		}
		c.Methods, c.RequestHeaders, c.ResponseHeaders = nil, nil, nil
		for i, n := 0, listLen(t, "nmethods", 0, 4); i < n; i++ {
			if chance(t, "mstar", 10) {
				c.Methods = append(c.Methods, "*")
			} else {
				c.Methods = append(c.Methods, Str(pickName(t, "m", methodAtomsL, chance(t, "mbad", badPct))))
			}
		}
		for i, n := 0, listLen(t, "nreq", 0, 5); i < n; i++ {
			if chance(t, "hstar", 10) {
				c.RequestHeaders = append(c.RequestHeaders, "*")
			} else {
				c.RequestHeaders = append(c.RequestHeaders, Str(pickName(t, "h", reqHdrAtomsL, chance(t, "hbad", badPct))))
			}
		}
		for i, n := 0, listLen(t, "nres", 0, 4); i < n; i++ {
			if chance(t, "rstar", 12) {
				c.ResponseHeaders = append(c.ResponseHeaders, "*")
			} else {
				c.ResponseHeaders = append(c.ResponseHeaders, Str(pickName(t, "r", resHdrAtomsL, chance(t, "rbad", badPct))))
			}
		}
		c.MaxAge = pick(t, "maxage", []int{0, -1, 5, 86400, 86401, -2, 1 << 40, -(1 << 40), 600, pick(t, "wrapmaxage", wrapInts(600))})
		c.Status = pick(t, "status", []int{0, 200, 204, 299, 199, 300, 1, -204, 404, 1 << 40, 456, 555, 200 + 65536, 204 - 256, 204 + (1 << 32), pick(t, "wrapstatus", wrapInts(204))})
	}
	fill()
	if mix == mixOneViolation {
		plantOne(t, &c)
	}
	return c
}

func insertAt(t *rapid.T, list []Str, s string) []Str {
	i := uniform(t, "pos", len(list)+1)
	out := append([]Str{}, list[:i]...)
	out = append(out, Str(s))
	return append(out, list[i:]...)
}

// plantOne plants exactly one violation into an otherwise valid
// configuration (several errors may follow from it, e.g. "*" under
// credentials and PNA at once).
func plantOne(t *rapid.T, c *Cfg) {
	switch uniform(t, "plant", 12) {
	case 0:
		c.Origins = insertAt(t, c.Origins, pickOriginAtom(t, true))
	case 1:
		c.Methods = insertAt(t, c.Methods, pickName(t, "m", methodAtomsL, true))
	case 2:
		c.RequestHeaders = insertAt(t, c.RequestHeaders, pickName(t, "h", reqHdrAtomsL, true))
	case 3:
		c.ResponseHeaders = insertAt(t, c.ResponseHeaders, pickName(t, "r", resHdrAtomsL, true))
	case 4:
		c.MaxAge = pick(t, "badmaxage", []int{86401, -2, 1 << 31, -86400, 100000, 1 << 32, (1 << 32) + 5, -(1 << 32), (1 << 32) - 1, pick(t, "wrapbadmaxage", wrapInts(600)), pick(t, "wrapbadmaxage2", wrapInts(5))})
	case 5:
		c.Status = pick(t, "badstatus", []int{199, 300, 1, 100, 404, -1, 2000, 456, 555, 460, 200 + 65536, 204 - 256, 204 + (1 << 32), pick(t, "wrapbadstatus", wrapInts(204))})
	case 6:
		c.PNA, c.PNANoCORS = true, true
		// keep the rest valid under PNA: no "*", no insecure origin unless tolerated
		c.Origins = SS("https://example.com")
	case 7:
		c.Origins = nil
	case 8:
		// "*" together with credentials and/or PNA
		if chance(t, "viaCred", 50) {
			c.Credentialed = true
			c.ResponseHeaders = dropStar(c.ResponseHeaders)
		} else {
			c.PNA, c.PNANoCORS = true, false
		}
		c.Origins = insertAt(t, secureOnlyOrigins(c.Origins), "*")
	case 9:
		// insecure origin without the tolerate switch
		c.TolInsecure = false
		if chance(t, "viaCred", 50) {
			c.Credentialed = true
			c.ResponseHeaders = dropStar(c.ResponseHeaders)
		} else {
			c.PNANoCORS, c.PNA = true, false
		}
		c.Origins = insertAt(t, secureOnlyOrigins(c.Origins), pick(t, "ins", insecureOriginAtoms))
	case 10:
		c.TolPSL = false
		if chance(t, "pslinsecure", 35) {
			// a public-suffix wildcard under an insecure scheme; with credentials and PNA off (or insecure origins
			// tolerated) the public-suffix rule is the only one it breaks
			if !c.TolInsecure {
				c.Credentialed, c.PNA, c.PNANoCORS = false, false, false
			}
			c.Origins = insertAt(t, dropStarOrigins(dropPSL(c.Origins)), pick(t, "pslins", []string{"http://*.com", "http://*.co.uk:8080", "http://*.com.:*", "ws://*.github.io"}))
		} else {
			c.Origins = insertAt(t, dropPSL(c.Origins), pick(t, "psl", pslOriginAtoms))
		}
	default:
		c.Credentialed = true
		c.Origins = secureOnlyOrigins(c.Origins)
		c.ResponseHeaders = insertAt(t, dropStar(c.ResponseHeaders), "*")
	}
}

func dropStarOrigins(in []Str) []Str { return dropStar(in) }

func dropStar(in []Str) []Str {
	var out []Str
	for _, s := range in {
		if s != "*" {
			out = append(out, s)
		}
	}
	return out
}

func secureOnlyOrigins(in []Str) []Str {
	var out []Str
	for _, s := range in {
		if a, ok := findOriginAtom(string(s)); ok && !a.Invalid && !a.Insecure && !a.PSL {
			out = append(out, s)
		}
	}
	if len(out) == 0 {
		out = SS("https://example.com")
	}
	return out
}

func dropPSL(in []Str) []Str {
	var out []Str
	for _, s := range in {
		if a, ok := findOriginAtom(string(s)); ok && a.PSL {
			continue
		}
		out = append(out, s)
	}
	return out
}

// genValidAtomCfg draws a configuration that uses only documented-permitted
// settings, by construction.
func genValidAtomCfg(t *rapid.T) Cfg {
	var c Cfg
	c.Credentialed = chance(t, "cred", 45)
	switch k := uniform(t, "pnamode", 100); {
	case k < 55:
	case k < 80:
		c.PNA = true
	default:
		c.PNANoCORS = true
	}
	c.TolInsecure = chance(t, "tolins", 50)
	c.TolPSL = chance(t, "tolpsl", 40)
	pna := c.PNA || c.PNANoCORS
	secureOnly := (c.Credentialed || pna) && !c.TolInsecure
	n := listLen(t, "norigins", 1, 5)
	for i := 0; i < n; i++ {
		for {
			a := pick(t, "oatom", originAtoms)
			if a.Invalid || (a.Insecure && secureOnly) || (a.PSL && !c.TolPSL) {
				continue
			}
			c.Origins = append(c.Origins, Str(a.S))
			break
		}
	}
	if !c.Credentialed && !pna && chance(t, "star", 30) {
		c.Origins = insertAt(t, c.Origins, "*")
	}
	for i, n := 0, listLen(t, "nmethods", 0, 4); i < n; i++ {
		if chance(t, "mstar", 15) {
			c.Methods = append(c.Methods, "*")
		} else {
			c.Methods = append(c.Methods, Str(pickName(t, "m", methodAtomsL, false)))
		}
	}
	for i, n := 0, listLen(t, "nreq", 0, 5); i < n; i++ {
		if chance(t, "hstar", 15) {
			c.RequestHeaders = append(c.RequestHeaders, "*")
		} else {
			c.RequestHeaders = append(c.RequestHeaders, Str(pickName(t, "h", reqHdrAtomsL, false)))
		}
	}
	for i, n := 0, listLen(t, "nres", 0, 4); i < n; i++ {
		if !c.Credentialed && chance(t, "rstar", 15) {
			c.ResponseHeaders = append(c.ResponseHeaders, "*")
		} else {
			c.ResponseHeaders = append(c.ResponseHeaders, Str(pickName(t, "r", resHdrAtomsL, false)))
		}
	}
	c.MaxAge = pick(t, "maxage", []int{0, -1, 1, 5, 600, 86400, 86399})
	c.Status = pick(t, "status", []int{0, 200, 204, 299, 250})
	return c
}

// wrapInts lists out-of-range integers that land on the in-range value v (or
// next to it) after a narrowing conversion or after a multiplication by a
// unit factor that overflows: v + 2^k for the usual widths, and
// (2^63 or 2^64)/f + v' for the factors 1e3, 1e6, 1e9 (milli/micro/nano
// units), 60 and 3600, both signs.
func wrapInts(v int) []int {
	var out []int
	add := func(x *big.Int) {
		if x.IsInt64() {
			n := int(x.Int64())
			if n < -1 || n > 86400 {
				out = append(out, n)
			}
		}
	}
	for _, k := range []uint{8, 16, 31, 32, 33, 48, 62, 63} {
		p := new(big.Int).Lsh(big.NewInt(1), k)
		add(new(big.Int).Add(p, big.NewInt(int64(v))))
		add(new(big.Int).Sub(big.NewInt(int64(v)), p))
	}
	for _, f := range []int64{1000, 1000000, 1000000000, 60, 3600} {
		for _, k := range []uint{63, 64} {
			q := new(big.Int).Div(new(big.Int).Lsh(big.NewInt(1), k), big.NewInt(f))
			for _, d := range []int64{0, 1, 2, int64(v), int64(v) + 1} {
				add(new(big.Int).Add(q, big.NewInt(d)))
				add(new(big.Int).Neg(new(big.Int).Add(q, big.NewInt(d))))
				add(new(big.Int).Add(new(big.Int).Lsh(q, 1), big.NewInt(d)))
			}
		}
	}
	return out
}
