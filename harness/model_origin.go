package harness

import (
	"strconv"
	"strings"
)

// ---------------------------------------------------------------------------
// Reference model for origin patterns and origins, on strings. Independent of
// the radix tree, of insertion order and of the library's parsers.

// Pat is a parsed (valid) origin pattern.
type Pat struct {
	Scheme string
	Wild   bool   // leading "*."
	Host   string // without "*.", with brackets for IPv6
	Port   string // "", "*", or decimal digits
}

func (p Pat) String() string {
	s := p.Scheme + "://"
	if p.Wild {
		s += "*."
	}
	s += p.Host
	if p.Port != "" {
		s += ":" + p.Port
	}
	return s
}

// SplitPat splits a pattern that is known to be valid.
func SplitPat(s string) (Pat, bool) {
	var p Pat
	i := strings.Index(s, "://")
	if i < 0 {
		return p, false
	}
	p.Scheme = s[:i]
	rest := s[i+3:]
	if strings.HasPrefix(rest, "*.") {
		p.Wild = true
		rest = rest[2:]
	}
	if strings.HasPrefix(rest, "[") {
		j := strings.IndexByte(rest, ']')
		if j < 0 {
			return p, false
		}
		p.Host = rest[:j+1]
		rest = rest[j+1:]
	} else {
		j := strings.IndexByte(rest, ':')
		if j < 0 {
			p.Host, rest = rest, ""
		} else {
			p.Host, rest = rest[:j], rest[j:]
		}
	}
	if rest != "" {
		if rest[0] != ':' {
			return p, false
		}
		p.Port = rest[1:]
	}
	return p, p.Host != ""
}

// Org is a well-formed serialised origin.
type Org struct {
	Scheme string
	Host   string // with brackets for IPv6
	Port   string // "" or digits
}

func isLower(b byte) bool { return 'a' <= b && b <= 'z' }
func isDig(b byte) bool   { return '0' <= b && b <= '9' }

func isLabelByte(b byte) bool { return isLower(b) || isDig(b) || b == '-' || b == '_' }

// SplitOrigin decides whether s matches the serialisation grammar
// scheme "://" host [":" port] and splits it. The grammar is the lenient one
// the property statements use ("as browsers emit it"): lower-case scheme,
// host made of non-empty [a-z0-9_-] labels separated by single dots with an
// optional trailing dot, or a bracketed IPv6 literal ([0-9a-f:.] inside),
// port 1..65535 without leading zeros.
func SplitOrigin(s string) (Org, bool) {
	var o Org
	i := strings.Index(s, "://")
	if i <= 0 {
		return o, false
	}
	o.Scheme = s[:i]
	if !isLower(o.Scheme[0]) {
		return o, false
	}
	for j := 1; j < len(o.Scheme); j++ {
		b := o.Scheme[j]
		if !(isLower(b) || isDig(b) || b == '+' || b == '-' || b == '.' || b == '_') {
			return o, false
		}
	}
	rest := s[i+3:]
	if strings.HasPrefix(rest, "[") {
		j := strings.IndexByte(rest, ']')
		if j < 0 {
			return o, false
		}
		inner := rest[1:j]
		if len(inner) < 2 || !strings.Contains(inner, ":") {
			return o, false
		}
		for k := 0; k < len(inner); k++ {
			b := inner[k]
			if !(isDig(b) || ('a' <= b && b <= 'f') || b == ':' || b == '.') {
				return o, false
			}
		}
		o.Host = rest[:j+1]
		rest = rest[j+1:]
	} else {
		j := 0
		for j < len(rest) && (isLabelByte(rest[j]) || rest[j] == '.') {
			j++
		}
		o.Host = rest[:j]
		rest = rest[j:]
		if !hostLabelsOK(o.Host) {
			return o, false
		}
	}
	if rest == "" {
		return o, true
	}
	if rest[0] != ':' {
		return o, false
	}
	o.Port = rest[1:]
	if !portOK(o.Port) {
		return o, false
	}
	return o, true
}

func hostLabelsOK(h string) bool {
	if h == "" || h[0] == '.' {
		return false
	}
	h = strings.TrimSuffix(h, ".")
	if h == "" {
		return false
	}
	for _, l := range strings.Split(h, ".") {
		if l == "" {
			return false
		}
	}
	return true
}

func portOK(p string) bool {
	if len(p) == 0 || len(p) > 5 || p[0] < '1' || p[0] > '9' {
		return false
	}
	for i := 0; i < len(p); i++ {
		if !isDig(p[i]) {
			return false
		}
	}
	n, _ := strconv.Atoi(p)
	return n >= 1 && n <= 65535
}

// Denotes is the denotation of one pattern, straight from C01's statement.
func Denotes(p Pat, o Org) bool {
	if p.Scheme != o.Scheme {
		return false
	}
	if p.Port != "*" && p.Port != o.Port {
		return false
	}
	if !p.Wild {
		return p.Host == o.Host
	}
	if strings.HasPrefix(o.Host, "[") {
		return false
	}
	suffix := "." + p.Host
	if !strings.HasSuffix(o.Host, suffix) {
		return false
	}
	front := o.Host[:len(o.Host)-len(suffix)]
	if front == "" {
		return false
	}
	for _, l := range strings.Split(front, ".") {
		if l == "" {
			return false
		}
	}
	return true
}

// OriginModel is the compiled reference form of Config.Origins.
type OriginModel struct {
	All  bool
	Pats []Pat
}

func NewOriginModel(patterns []Str) OriginModel {
	var m OriginModel
	for _, s := range patterns {
		if s == "*" {
			m.All = true
			continue
		}
		if p, ok := SplitPat(string(s)); ok {
			m.Pats = append(m.Pats, p)
		}
	}
	return m
}

// DenotedBy reports whether some listed pattern denotes the well-formed
// origin string s (ignoring "*").
func (m OriginModel) DenotedBy(s string) bool {
	o, ok := SplitOrigin(s)
	if !ok {
		return false
	}
	for _, p := range m.Pats {
		if Denotes(p, o) {
			return true
		}
	}
	return false
}

// Allowed: the configuration lists "*" or a listed pattern denotes s.
// For "*", s must still be a well-formed origin as far as preflights are
// concerned; callers that need that distinction use All and DenotedBy.
func (m OriginModel) Allowed(s string) bool {
	if m.All {
		return true
	}
	return m.DenotedBy(s)
}
