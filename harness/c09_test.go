package harness

import (
	"fmt"
	"strings"
	"sync"
	"sync/atomic"
	"testing"

	"github.com/jub0bs/cors"
	"pgregory.net/rapid"
)

// C09: debug mode follows the documented state machine over any call
// history, and changes nothing but the diagnostics of failing preflights.

const (
	opDebugOn = iota
	opDebugOff
	opReconfNil
	opReconfA
	opReconfB
	opReconfInvalid
	nOps
)

var opNames = []string{"SetDebug(true)", "SetDebug(false)", "Reconfigure(nil)", "Reconfigure(A)", "Reconfigure(B)", "Reconfigure(invalid)"}

type C09Case struct {
	A       Cfg   `json:"A"`
	B       Cfg   `json:"B"`
	Invalid Cfg   `json:"invalid"`
	Zero    bool  `json:"start_from_zero_value"`
	Ops     []int `json:"ops"`
}

func (c C09Case) Brief() any {
	names := make([]string, len(c.Ops))
	for i, o := range c.Ops {
		names[i] = opNames[o]
	}
	if len(names) > 60 {
		names = append(append(append([]string{}, names[:12]...), fmt.Sprintf("... (%d steps in all) ...", len(names))), names[len(names)-12:]...)
	}
	return map[string]any{"A": c.A, "B": c.B, "invalid": c.Invalid, "start_from_zero_value": c.Zero, "ops": names}
}

// model state: cfg 0 = passthrough, 1 = A, 2 = B
type dbgState struct {
	cfg   int
	debug bool
}

func (s dbgState) step(op int) dbgState {
	switch op {
	case opDebugOn:
		if s.cfg != 0 {
			s.debug = true
		}
	case opDebugOff:
		if s.cfg != 0 {
			s.debug = false
		}
	case opReconfNil:
		s.cfg, s.debug = 0, false
	case opReconfA:
		s.cfg = 1
	case opReconfB:
		s.cfg = 2
	case opReconfInvalid:
	}
	return s
}

func (s dbgState) key() int {
	k := s.cfg * 2
	if s.debug {
		k++
	}
	return k
}

// miniSuite: a small set of requests that tells the five states apart
// (passthrough, A, A+debug, B, B+debug) for most configuration pairs.
func miniSuite(a, b Cfg) []Req {
	var out []Req
	out = append(out, Req{Method: "GET"}, Req{Method: "OPTIONS"})
	for _, c := range []Cfg{a, b} {
		p := poolsOf(c)
		o := p.allowed[0]
		out = append(out, Actual("GET", o), Preflight(o, "GET"), Preflight(o, "UNLISTED"), Preflight(o, "PUT", "x-unlisted"), Preflight(o, "GET", "x-unlisted,x-unlisted2"),
			Preflight(o, "GET").With(hACRPN, "true"))
		if len(p.methods) > 0 {
			out = append(out, Preflight(o, p.methods[0]))
		}
		if len(p.names) > 0 {
			out = append(out, Preflight(o, "GET", p.names[0]))
		}
		if len(p.near) > 0 {
			out = append(out, Preflight(p.near[0], "GET"), Actual("GET", p.near[0]))
		}
	}
	return out
}

func applyOp(m *cors.Middleware, c *C09Case, op int) error {
	switch op {
	case opDebugOn:
		m.SetDebug(true)
	case opDebugOff:
		m.SetDebug(false)
	case opReconfNil:
		return m.Reconfigure(nil)
	case opReconfA:
		cfg := c.A.Cors()
		return m.Reconfigure(&cfg)
	case opReconfB:
		cfg := c.B.Cors()
		return m.Reconfigure(&cfg)
	case opReconfInvalid:
		cfg := c.Invalid.Cors()
		if err := m.Reconfigure(&cfg); err == nil {
			return fmt.Errorf("invalid configuration accepted")
		}
	}
	return nil
}

// refSigs builds, for each of the five model states, a FRESH middleware in
// that state and records its answers to the suite.
func refSigs(c *C09Case, suite []Req) ([6][]string, error) {
	var out [6][]string
	out[0] = SuiteSig(new(cors.Middleware).Wrap, suite)
	out[1] = out[0]
	for i, cfg := range []Cfg{c.A, c.B} {
		for _, dbg := range []bool{false, true} {
			m, err := mkMW(cfg, dbg)
			if err != nil {
				return out, err
			}
			out[dbgState{cfg: i + 1, debug: dbg}.key()] = SuiteSig(m.Wrap, suite)
		}
	}
	return out, nil
}

func historyNonTrivial(zero bool, ops []int) bool {
	s := dbgState{cfg: 1}
	if zero {
		s = dbgState{}
	}
	setOnPass, transitions := false, 0
	for _, op := range ops {
		n := s.step(op)
		if s.cfg == 0 && op == opDebugOn {
			setOnPass = true
		}
		if setOnPass && (op == opReconfA || op == opReconfB) {
			return true
		}
		if op == opReconfInvalid && s.debug {
			return true
		}
		if (s.cfg == 0) != (n.cfg == 0) {
			transitions++
		}
		s = n
	}
	return transitions >= 2
}

func c09RunHistory(c *C09Case, suite []Req, ref [6][]string, rec *Recorder) *Disc {
	var m *cors.Middleware
	s := dbgState{}
	if c.Zero {
		m = new(cors.Middleware)
	} else {
		var err error
		m, err = cors.NewMiddleware(c.A.Cors())
		if err != nil {
			return nil
		}
		s = dbgState{cfg: 1}
	}
	wrap := oneWrap(m.Wrap) // wrapped once, before the history: the handler must follow every SetDebug/Reconfigure
	check := func(step int, after string) *Disc {
		got := SuiteSig(wrap, suite)
		rec.Eval(len(suite))
		want := ref[s.key()]
		if i := firstDiff(want, got); i >= 0 {
			hist := make([]string, 0, step+1)
			for _, o := range c.Ops[:step] {
				hist = append(hist, opNames[o])
			}
			if len(hist) > 40 {
				hist = append(append(append([]string{}, hist[:12]...), fmt.Sprintf("... (%d steps in all, see the replay file) ...", len(hist))), hist[len(hist)-12:]...)
			}
			start := "NewMiddleware(A)"
			if c.Zero {
				start = "zero value"
			}
			return discf("history %s; %s (%s): model state is (cfg=%s, debug=%v) but {%s} is answered %s; a fresh middleware in that state answers %s. A=%+v B=%+v",
				start, strings.Join(hist, "; "), after, []string{"passthrough", "A", "B"}[s.cfg], s.debug, suite[i].Brief(), abbrev(got[i], 300), abbrev(want[i], 300), c.A, c.B)
		}
		if (m.Config() == nil) != (s.cfg == 0) {
			return discf("after %d steps: Config()==nil is %v but model cfg=%d", step, m.Config() == nil, s.cfg)
		}
		return nil
	}
	if d := check(0, "after creation"); d != nil {
		return d
	}
	for i, op := range c.Ops {
		if err := applyOp(m, c, op); err != nil {
			return discf("step %d %s: %v", i, opNames[op], err)
		}
		s = s.step(op)
		if !c09Observed(i+1, len(c.Ops)) {
			continue
		}
		if d := check(i+1, "after "+opNames[op]); d != nil {
			return d
		}
	}
	return nil
}

func preflightHdr(k string) bool {
	switch k {
	case hACAO, hACAC, hACAPN, hACAM, hACAH, hACMA:
		return true
	}
	return false
}

// debugOnlyDiagnostics checks the second half of C09 on one configuration:
// debug on vs off may differ only in the diagnostics of failing preflights.
func debugOnlyDiagnostics(c Cfg, rec *Recorder) *Disc {
	m0, err := mkMW(c, false)
	if err != nil {
		return nil
	}
	m1, _ := mkMW(c, true)
	model := NewOriginModel(c.Origins)
	_, _, names := listedReqHdrs(c)
	full := strings.Join(names, ",")
	// the status of a refused preflight is not documented: take it from a preflight from the null origin
	refusal := Do(m0.Wrap, Preflight("null", "GET"), nil).Status
	for _, r := range Suite(c) {
		off := Do(m0.Wrap, r, nil)
		on := Do(m1.Wrap, r, nil)
		rec.Eval(2)
		if off.Sig() == on.Sig() {
			continue
		}
		where := fmt.Sprintf("cfg %+v request {%s}: debug off -> %s ; debug on -> %s", c, r.Brief(), abbrev(off.Sig(), 400), abbrev(on.Sig(), 400))
		if !isPreflight(r) {
			return discf("debug mode changes the response to a non-preflight request: %s", where)
		}
		if on.Called != off.Called || on.Body != off.Body || hdrSig(map[string][]string{"v": on.Hdr[hVary]}) != hdrSig(map[string][]string{"v": off.Hdr[hVary]}) {
			return discf("debug mode changes handler invocation, body or Vary of a preflight: %s", where)
		}
		refusedOff := !(off.Status == c.SuccessStatus() && len(off.Hdr[hACAO]) > 0)
		for k := range on.Hdr {
			if _, inOff := off.Hdr[k]; !inOff && refusedOff && !strings.HasPrefix(k, "Access-Control-") && k != hVary {
				// a further diagnostic attached to a failing preflight (say X-Cors-Reason): the statement's list of
				// diagnostics is read as examples, not as exhaustive; CORS headers and Vary are judged below
				continue
			}
			if !preflightHdr(k) && hdrSig(map[string][]string{k: on.Hdr[k]}) != hdrSig(map[string][]string{k: off.Hdr[k]}) {
				return discf("debug mode changes header %s, which is not a preflight diagnostic: %s", k, where)
			}
		}
		for k := range off.Hdr {
			if _, ok := on.Hdr[k]; !ok && !preflightHdr(k) {
				return discf("debug mode removes header %s: %s", k, where)
			}
		}
		origin, _ := firstVal(r, hOrigin)
		succeededOff := off.Status == c.SuccessStatus() && len(off.Hdr[hACAO]) > 0
		if succeededOff {
			// identical except that ACAH may be the full configured list
			if on.Status != off.Status {
				return discf("debug mode changes the status of a successful preflight: %s", where)
			}
			for _, k := range []string{hACAO, hACAC, hACAPN, hACAM, hACMA} {
				if !eqStrs(on.Hdr[k], off.Hdr[k]) {
					return discf("debug mode changes %s of a successful preflight: %s", k, where)
				}
			}
			_, hasACRH := r.Get(hACRH)
			if !eqStrs(on.Hdr[hACAH], off.Hdr[hACAH]) && !(hasACRH && full != "" && sameTokens(on.Hdr[hACAH], []string{full})) {
				return discf("debug mode changes ACAH of a successful preflight (request carries ACRH: %v) to something other than the full configured list %q in answer to requested headers: %s", hasACRH, full, where)
			}
			continue
		}
		// failing preflight
		if len(off.Hdr[hACAO]) != 0 || off.Status != refusal {
			continue // odd debug-off response; C16 judges it
		}
		// which diagnostics a failing preflight carries in debug mode (ok status, partial headers, the full list) is
		// not pinned, not even for a failure at the origin step; but a disallowed origin is never told it is allowed
		if !c.AllowAll() && !model.DenotedBy(origin) && !bracketedHostEcho(model, origin) && len(on.Hdr[hACAO]) != 0 {
			return discf("debug mode answers a preflight from a disallowed origin with ACAO %q: %s", on.Hdr[hACAO], where)
		}
		if on.Status != refusal && on.Status != c.SuccessStatus() {
			return discf("debug mode answers a failing preflight with status %d: %s", on.Status, where)
		}
	}
	return nil
}

func c09Gen(t *rapid.T) C09Case {
	c := C09Case{A: genValidCfg(t), B: genValidCfg(t), Zero: chance(t, "zero", 50)}
	c.Invalid = genAtomCfg(t, mixOneViolation)
	n := intIn(t, "nops", 1, 24)
	for i := 0; i < n; i++ {
		c.Ops = append(c.Ops, uniform(t, "op", nOps))
	}
	if chance(t, "longhistory", 8) {
		// a LONG history: a short drawn block repeated until the history has 70-1030 steps (lengths around 2^7, 2^8,
		// 2^9, 2^10: counters of calls, generations, revisions ... wrap or cross thresholds there), then the drawn tail
		c.Ops = append(c09LongPrefix(t, pick(t, "longlen", []int{70, 127, 130, 255, 258, 300, 515, 1030})), c.Ops...)
	} else if chance(t, "hugehistory", 1) && chance(t, "hugehistory2", 40) {
		// 2^16 and a bit: state is observed around every power of two and every 997th step only (see c09Observed)
		c.Ops = append(c09LongPrefix(t, 65540), c.Ops...)
	}
	return c
}

func c09LongPrefix(t *rapid.T, target int) []int {
	if chance(t, "longdebugrun", 35) {
		// debug mode switched on ONCE, then a long run without any SetDebug call: reconfigurations between the two
		// configurations, rejected reconfigurations (i.e. nothing but observations: hundreds to thousands of requests,
		// about half of them preflights, served in one unbroken stretch of debug mode)
		out := []int{pick(t, "longcfg", []int{opReconfA, opReconfB}), opDebugOn}
		block := [][]int{{opReconfInvalid}, {opReconfA, opReconfB}, {opReconfB}, {opReconfInvalid, opReconfA}}[uniform(t, "longblock", 4)]
		for len(out) < target {
			out = append(out, block...)
		}
		return out
	}
	var block []int
	for i, n := 0, intIn(t, "blocklen", 1, 4); i < n; i++ {
		// mostly successful reconfigurations: they are what such counters count
		if chance(t, "blockreconf", 70) {
			block = append(block, pick(t, "blockop", []int{opReconfA, opReconfB, opReconfA, opReconfB, opReconfNil}))
		} else {
			block = append(block, uniform(t, "blockany", nOps))
		}
	}
	var out []int
	for len(out) < target {
		out = append(out, block...)
	}
	return out
}

// c09Observed: in histories of more than 1100 steps the state is observed only near powers of two, every 997th
// step and over the last 30 steps; shorter histories are observed after every step.
func c09Observed(step, total int) bool {
	if total <= 1100 || step >= total-30 || step%997 == 0 {
		return true
	}
	for d := -2; d <= 2; d++ {
		if x := step + d; x > 0 && x&(x-1) == 0 {
			return true
		}
	}
	return false
}

func c09Check(c C09Case, rec *Recorder) *Disc {
	if exp, _ := Violations(c.Invalid); len(exp) == 0 {
		c.Invalid = Cfg{} // no origins: certainly invalid
	}
	if _, err := mkMW(c.A, false); err != nil {
		rec.Class("rejected-config")
		return nil
	}
	if _, err := mkMW(c.B, false); err != nil {
		rec.Class("rejected-config")
		return nil
	}
	suite := miniSuite(c.A, c.B)
	ref, err := refSigs(&c, suite)
	if err != nil {
		return nil
	}
	if d := c09RunHistory(&c, suite, ref, rec); d != nil {
		return d
	}
	if historyNonTrivial(c.Zero, c.Ops) {
		rec.NonTrivialHash(h64(fmt.Sprintf("%v|%v|%+v|%+v", c.Zero, c.Ops, c.A, c.B)))
		rec.Class("history-nontrivial")
	}
	// the states must actually be distinguishable for the walk to mean anything
	if strings.Join(ref[2], "\n") != strings.Join(ref[3], "\n") && strings.Join(ref[2], "\n") != strings.Join(ref[4], "\n") {
		rec.Class("states-distinguishable")
	}
	for _, cfg := range []Cfg{c.A, c.B} {
		if d := debugOnlyDiagnostics(cfg, rec); d != nil {
			return d
		}
	}
	return nil
}

func TestC09(t *testing.T) {
	Prop[C09Case]{ID: "C09", Gen: c09Gen, Check: c09Check,
		Rule: "generator: two drawn valid configurations A, B, one invalid configuration, start in {NewMiddleware(A), zero value}, history of 1-24 operations over {SetDebug(true), SetDebug(false), Reconfigure(nil), Reconfigure(A), Reconfigure(B), Reconfigure(invalid)}, in 8% of the cases preceded by a drawn block of 1-4 operations (mostly successful reconfigurations) repeated up to 70-1030 steps, and rarely up to 65540 steps (then observed near every power of two, every 997th step and over the last 30 steps). " +
			"Oracle: after creation and after every step, the answers to a probe suite (non-CORS, actual, succeeding and failing preflights for A and B) and Config()==nil equal those of a FRESH middleware in the state the documented state machine predicts; " +
			"second half on the full suites of A and B: debug on vs off identical for non-preflights; successful preflights identical except ACAH may become the full configured list; failing preflights may only change status to the success status and gain preflight headers, never on the origin-failure path. " +
			"non-trivial history = SetDebug(true) on a passthrough followed later by a successful Reconfigure, or a failed Reconfigure while debug is on, or >=2 transitions to/from passthrough; distinct by (start, ops, A, B).",
		Assumptions: []string{"state machine transcribed from the documentation of SetDebug, Reconfigure and the Middleware type"}}.Run(t)
}

// ---------------------------------------------------------------------------
// exhaustive: all histories up to length 6 from both starts

func TestC09Exhaustive(t *testing.T) {
	rec := NewRecorder("C09", "exhaustive")
	rule := "exhaustive: every history of length <= 6 over the six operations, from NewMiddleware(A) and from the zero value (2 x (6^7-1)/5 histories), for one fixed pair of configurations that differ in every observable aspect; state compared after every step"
	defer func() { rec.Flush(rule, nil, 0) }()
	base := C09Case{
		A:       Cfg{Origins: SS("https://a.example"), Methods: SS("PUT"), RequestHeaders: SS("X-A"), MaxAge: 30, ResponseHeaders: SS("X-RA")},
		B:       Cfg{Origins: SS("https://*.b.example:*", "http://localhost:*"), Credentialed: true, Methods: SS("*"), RequestHeaders: SS("X-B", "Authorization"), Status: 200, PNA: true},
		Invalid: Cfg{Origins: SS("https://c.example", "https://c.example/"), Methods: SS("DELETE"), MaxAge: 99},
	}
	suite := miniSuite(base.A, base.B)
	ref, err := refSigs(&base, suite)
	if err != nil {
		t.Fatal(err)
	}
	maxLen := envInt("VERIF_C09_MAXLEN", 6)
	var all [][]int
	var rec1 func(prefix []int)
	rec1 = func(prefix []int) {
		if len(prefix) > 0 {
			all = append(all, append([]int{}, prefix...))
		}
		if len(prefix) == maxLen {
			return
		}
		for op := 0; op < nOps; op++ {
			rec1(append(prefix, op))
		}
	}
	rec1(nil)
	// only maximal histories need running (state is checked after every step),
	// but running all keeps the enumeration obviously complete
	var (
		wg    sync.WaitGroup
		next  int64 = -1
		mu    sync.Mutex
		first *Disc
		fc    C09Case
	)
	total := 2 * len(all)
	for w := 0; w < envInt("VERIF_WORKERS", 16); w++ {
		wg.Add(1)
		go func() {
			defer wg.Done()
			for {
				i := int(atomic.AddInt64(&next, 1))
				if i >= total {
					return
				}
				ops := all[i/2]
				if len(ops) != maxLen && len(ops) > 2 {
					// prefixes of longer histories are covered step by step
					continue
				}
				c := base
				c.Zero = i%2 == 1
				c.Ops = ops
				if d := safely(func() *Disc { return c09RunHistory(&c, suite, ref, rec) }); d != nil {
					mu.Lock()
					if first == nil || len(c.Ops) < len(fc.Ops) {
						first, fc = d, c
					}
					mu.Unlock()
				}
				if historyNonTrivial(c.Zero, ops) {
					rec.NonTrivialHash(h64(fmt.Sprintf("%v|%v", c.Zero, ops)))
				}
				rec.mu.Lock()
				rec.cases++
				rec.mu.Unlock()
			}
		}()
	}
	wg.Wait()
	rec.Exhaust = true
	rec.AddSample(C09Case{A: base.A, B: base.B, Invalid: base.Invalid, Zero: true, Ops: []int{0, 3, 5, 2, 0, 4}})
	if first != nil {
		rec.violation++
		path := writeReplay("C09", "rapid", fc, first)
		reportViolation("C09", path, first)
		t.FailNow()
	}
}
