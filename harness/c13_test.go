package harness

import (
	"fmt"
	"strings"
	"testing"

	"github.com/jub0bs/cors"
	"github.com/jub0bs/cors/cfgerrors"
	"pgregory.net/rapid"
)

// C13: origin-pattern grammar: documented forms accepted, documented
// non-forms rejected.

type C13Case struct {
	Pattern Str    `json:"pattern"`
	Valid   bool   `json:"valid"`
	Defect  string `json:"defect,omitempty"`
	Notable string `json:"notable,omitempty"` // why a valid pattern is non-trivial
	// Companions are further valid patterns (mostly the same host under other schemes
	// and ports) listed next to Pattern in a second configuration; Pos is where Pattern goes.
	Companions []Str `json:"companions,omitempty"`
	Pos        int   `json:"pos,omitempty"`
}

// known-valid Punycode labels
var punyLabels = []string{"xn--xample-9ua", "xn--bcher-kva", "xn--mnchen-3ya", "xn--caf-dma", "xn--80ak6aa92e", "xn--fsq"}

type gpat struct {
	scheme string
	wild   bool
	host   string // domain (maybe trailing dot), IPv4 or bracketed IPv6
	kind   string // domain | ipv4 | ipv6
	port   string
}

func (g gpat) String() string {
	return Pat{Scheme: g.scheme, Wild: g.wild, Host: g.host, Port: g.port}.String()
}

func genScheme(t *rapid.T, maxed bool) string {
	const later = "abcdefghijklmnopqrstuvwxyz0123456789+-."
	n := 0
	switch {
	case maxed:
		n = 64
	default:
		switch k := uniform(t, "schemekind", 100); {
		case k < 35:
			return "https"
		case k < 55:
			return "http"
		case k < 70:
			return pick(t, "scheme", []string{"ws", "wss", "ftp", "connector", "chrome-extension", "moz-extension", "app", "a", "z9", "web+x", "a.b", "fil", "files", "filex", "htt", "httpss"})
		case k < 80:
			n = 64
		case k < 85:
			n = 63
		default:
			n = intIn(t, "schemelen", 1, 20)
		}
	}
	b := make([]byte, n)
	b[0] = later[uniform(t, "s0", 26)]
	for i := 1; i < n; i++ {
		b[i] = later[uniform(t, "si", len(later))]
	}
	s := string(b)
	if s == "file" {
		s = "filf"
	}
	return s
}

func genValidPattern(t *rapid.T) (gpat, string) {
	var g gpat
	notable := ""
	allMax := chance(t, "allmax", 6)
	g.scheme = genScheme(t, allMax)
	if len(g.scheme) == 64 {
		notable = "64-byte scheme"
	}
	kind := uniform(t, "hostkind", 100)
	switch {
	case allMax:
		g.kind = "domain"
		g.host = genDomainOfLen(t, "maxdom", 253) + "."
		notable = "every maximum at once"
	case kind < 12 && g.scheme != "https":
		g.kind = "ipv4"
		g.host = genIPv4(t, chance(t, "loop", 30))
		notable = "IPv4 literal"
	case kind < 24 && g.scheme != "https":
		g.kind = "ipv6"
		g.host = genIPv6(t, chance(t, "loop", 20))
		notable = "IPv6 literal"
	default:
		g.kind = "domain"
		g.wild = chance(t, "wild", 35)
		maxLen := 253
		if g.wild {
			maxLen = 251
		}
		switch k := uniform(t, "domkind", 100); {
		case k < 12:
			g.host = genDomainOfLen(t, "dom", maxLen)
			notable = fmt.Sprintf("%d-byte domain", maxLen)
		case k < 18:
			g.host = genDomainOfLen(t, "dom", maxLen-1)
		case k < 28:
			// a 63-byte label somewhere
			g.host = ldhLabel(t, "l63", 63) + "." + genDomainOfLen(t, "dom", intIn(t, "rest", 1, 40))
			notable = "63-byte label"
		case k < 40:
			g.host = pick(t, "puny", punyLabels) + "." + pick(t, "tld", []string{"com", "org", "example", "de"})
			if chance(t, "www", 50) {
				g.host = "www." + g.host
			}
			notable = "Punycode label"
		case k < 50:
			g.host = pick(t, "single", []string{"localhost", "intranet", "a", "example"})
		default:
			g.host = genDomainOfLen(t, "dom", intIn(t, "domlen", 1, 60))
		}
		// the trailing dot does not count against the 253-byte limit; for a
		// "*." pattern with a 251-byte base it is an undocumented corner
		if chance(t, "dot", 20) && !(g.wild && len(g.host) >= 251) {
			g.host += "."
			if notable == "" {
				notable = "trailing dot"
			}
		}
	}
	switch k := uniform(t, "portkind", 100); {
	case allMax:
		g.port = pick(t, "p5", []string{"65535", "10000", "44300", "65534"})
	case k < 35:
	case k < 50:
		g.port = "*"
	case k < 60:
		g.port = pick(t, "pfix", []string{"1", "65535", "8080", "8443", "3000", "81", "444", "8", "800", "4430"})
		if g.port == "65535" && notable == "" {
			notable = "port 65535"
		}
	case k < 70:
		// default port of the other scheme
		if g.scheme == "http" {
			g.port = "443"
		} else {
			g.port = "80"
		}
	default:
		g.port = fmt.Sprint(intIn(t, "phi", 0, 255)*256 + intIn(t, "plo", 1, 255))
	}
	if defaultPort(g.scheme, g.port) {
		g.port = ""
	}
	return g, notable
}

var c13Defects = []string{"unicode-host", "uppercase-host", "userinfo", "path", "query", "fragment", "leading-space", "trailing-space", "empty-port",
	"zero-port", "overrange-port", "overlong-port", "leading-zero-port", "default-port", "null", "file-scheme", "hex-ipv4", "short-ipv4", "leading-zero-ipv4",
	"expanded-ipv6", "uppercase-ipv6", "zoned-ipv6", "ipv4-mapped-ipv6", "wildcard-middle", "double-wildcard", "partial-label-wildcard", "partial-port-wildcard",
	"wildcard-before-ip", "domain-254", "label-64", "missing-slashes", "uppercase-scheme", "wildcard-252", "tab-inside", "missing-scheme", "empty-label", "hyphen-edge-label", "overlong-scheme",
	"bad-scheme-byte", "bad-host-byte", "bad-port-byte"}

// applyDefect plants exactly one documented defect into a valid pattern.
// It returns "" when the defect does not apply to this base.
func applyDefect(t *rapid.T, g gpat, defect string) string {
	s := g.String()
	hostPort := func(h, p string) string { return Pat{Scheme: g.scheme, Wild: g.wild, Host: h, Port: p}.String() }
	switch defect {
	case "unicode-host":
		if g.kind != "domain" {
			return ""
		}
		i := uniform(t, "upos", len(g.host))
		if g.host[i] == '.' {
			return ""
		}
		return hostPort(g.host[:i]+"é"+g.host[i+1:], g.port)
	case "uppercase-host":
		if g.kind != "domain" {
			return ""
		}
		for off := 0; off < len(g.host); off++ {
			i := (uniform(t, "cpos", len(g.host)) + off) % len(g.host)
			if isLower(g.host[i]) {
				return hostPort(g.host[:i]+strings.ToUpper(g.host[i:i+1])+g.host[i+1:], g.port)
			}
		}
		return ""
	case "userinfo":
		return strings.Replace(s, "://", "://"+pick(t, "ui", []string{"user@", "user:pw@", "@"}), 1)
	case "path":
		return s + pick(t, "path", []string{"/", "/path", "/a/b"})
	case "query":
		return s + "?q=1"
	case "fragment":
		return s + "#frag"
	case "leading-space":
		return pick(t, "ws", []string{" ", "\t"}) + s
	case "trailing-space":
		return s + pick(t, "ws", []string{" ", "\t", "\n"})
	case "empty-port":
		return hostPort(g.host, "") + ":"
	case "zero-port":
		return hostPort(g.host, "0")
	case "overrange-port":
		// just above the range, and far above it in ways that wrap back into the range in 16, 32, 63 or 64 bits
		return hostPort(g.host, pick(t, "op", []string{"65536", "70000", "99999", "72817", "65537", "131071", "4294967297", "4294975376", "9223372036854775809", "18446744073709551617", "18446744073709559696", "36893488147419103233", "340282366920938463463374607431768211457"}))
	case "overlong-port":
		return hostPort(g.host, pick(t, "lp", []string{"100000", "123456", "0065535"}))
	case "leading-zero-port":
		return hostPort(g.host, pick(t, "zp", []string{"080", "08080", "01", "00443"}))
	case "default-port":
		switch g.scheme {
		case "http":
			return hostPort(g.host, "80")
		case "https":
			return hostPort(g.host, "443")
		}
		return ""
	case "null":
		return "null"
	case "file-scheme":
		return "file://" + strings.TrimPrefix(s, g.scheme+"://")
	case "hex-ipv4":
		return g.scheme + "://" + pick(t, "hex", []string{"0x7f000001", "0xFF000000", "0x7f.0.0.1"})
	case "short-ipv4":
		return g.scheme + "://" + pick(t, "short", []string{"127.1", "10.1.1", "1"}) + orStr2(strings.TrimPrefix(g.port, "*"))
	case "leading-zero-ipv4":
		return g.scheme + "://" + pick(t, "lz", []string{"127.0.0.01", "010.0.0.1", "1.2.3.04"})
	case "expanded-ipv6":
		return g.scheme + "://" + pick(t, "exp", []string{"[0:0:0:0:0:0:0:1]", "[0000:0000:0000:0000:0000:0000:0000:0001]", "[2001:db8:0:0:0:0:0:1]", "[2001:0db8::1]"}) + orStr2(g.port)
	case "uppercase-ipv6":
		return g.scheme + "://" + pick(t, "up", []string{"[::A]", "[2001:DB8::1]", "[FE80::1]"}) + orStr2(g.port)
	case "zoned-ipv6":
		return g.scheme + "://[fe80::1%eth0]" + orStr2(g.port)
	case "ipv4-mapped-ipv6":
		return g.scheme + "://" + pick(t, "mapped", []string{"[::ffff:1.2.3.4]", "[::ffff:102:304]"}) + orStr2(g.port)
	case "wildcard-middle":
		if g.kind != "domain" {
			return ""
		}
		return g.scheme + "://foo.*." + g.host + orStr2(g.port)
	case "double-wildcard":
		if g.kind != "domain" {
			return ""
		}
		return g.scheme + "://" + pick(t, "dw", []string{"**.", "*.*."}) + g.host + orStr2(g.port)
	case "partial-label-wildcard":
		if g.kind != "domain" {
			return ""
		}
		return g.scheme + "://" + pick(t, "pw", []string{"*", "*foo.", "foo*."}) + g.host + orStr2(g.port)
	case "partial-port-wildcard":
		return hostPort(g.host, pick(t, "ppw", []string{"8*", "*8", "**", "*0"}))
	case "wildcard-before-ip":
		return g.scheme + "://*." + pick(t, "ip", []string{"127.0.0.1", "10.0.0.1", "[::1]"}) + orStr2(g.port)
	case "domain-254":
		n := pick(t, "toolong", []int{254, 255, 300})
		return g.scheme + "://" + genLongDomain(t, n) + orStr2(g.port)
	case "label-64":
		// a label of more than 63 bytes in first, middle or last position, with or without hyphens, with or without trailing dot
		n := pick(t, "l64n", []int{64, 64, 65, 100})
		long := ldhLabel(t, "l64", n)
		if chance(t, "l64plain", 50) {
			long = strings.Repeat(pick(t, "l64c", []string{"a", "z", "9"}), n)
			if long[0] == '9' {
				long = "a" + long[1:]
			}
		}
		host := []string{long + ".example.com", "www." + long + ".com", "www.example." + long, long}[uniform(t, "l64pos", 4)]
		if chance(t, "l64dot", 25) {
			host += "."
		}
		w := ""
		if chance(t, "l64wild", 25) {
			w = "*."
		}
		return g.scheme + "://" + w + host + orStr2(g.port)
	case "bad-scheme-byte":
		// a byte that no scheme may contain (RFC 3986: ALPHA *( ALPHA / DIGIT / "+" / "-" / "." )), replacing or following any scheme byte; or a first byte that is not a letter
		if chance(t, "schfirst", 20) {
			return pick(t, "sch0", []string{"1", "+", "-", ".", "9"}) + s
		}
		i := 1 + uniform(t, "schpos", len(g.scheme))
		b := c13Punct[uniform(t, "schb", len(c13Punct))]
		if chance(t, "schins", 50) || i == len(g.scheme) {
			return s[:i] + string(b) + s[i:]
		}
		return s[:i] + string(b) + s[i+1:]
	case "bad-host-byte":
		if g.kind != "domain" {
			return ""
		}
		i := uniform(t, "hbpos", len(g.host)+1)
		b := c13Punct[uniform(t, "hbb", len(c13Punct))]
		if b == ',' && false {
			return ""
		}
		h := g.host[:i] + string(b) + g.host[i:]
		if chance(t, "hbrepl", 50) && i < len(g.host) && g.host[i] != '.' {
			h = g.host[:i] + string(b) + g.host[i+1:]
		}
		return hostPort(h, g.port)
	case "bad-port-byte":
		// port syntaxes that lenient integer parsers accept, and stray bytes among the digits
		return hostPort(g.host, pick(t, "bpb", []string{"+80", "-1", "8_0", "8_080", "1e3", "0x50", "0b11", "0o17", "80a", "a80", "8,0", " 80", "80 ", "8.0", "８０", "٨٠", "80\x00", "\x0080", "8\t0"}))
	case "overlong-scheme":
		// "All valid schemes (no longer than 64 bytes) ... are permitted"
		n := pick(t, "schlen", []int{65, 65, 66, 100})
		return "a" + strings.Repeat(pick(t, "schc", []string{"a", "b", "1", "+"}), n-1) + s[len(g.scheme):]
	case "hyphen-edge-label":
		// a label that starts or ends with a hyphen is not a letter-digit-hyphen label (RFC 5890 2.3.1)
		host := pick(t, "hyph", []string{"-example.com", "example-.com", "www.-a.com", "www.a-.com", "a.b-", "-a", "a-", "example.com-", "-.example.com", "my-service-"})
		w := ""
		if chance(t, "hyphwild", 25) {
			w = "*."
		}
		return g.scheme + "://" + w + host + orStr2(g.port)
	case "missing-slashes":
		return strings.Replace(s, "://", pick(t, "ms", []string{":", ":/", "//", ""}), 1)
	case "uppercase-scheme":
		return strings.ToUpper(g.scheme[:1]) + s[1:]
	case "wildcard-252":
		return g.scheme + "://*." + genLongDomain(t, pick(t, "w252", []int{252, 253})) + orStr2(g.port)
	case "tab-inside":
		i := len(g.scheme) + 3 + uniform(t, "tabpos", len(g.host))
		return s[:i] + pick(t, "wsin", []string{" ", "\t"}) + s[i:]
	case "missing-scheme":
		return strings.TrimPrefix(s, g.scheme)
	case "empty-label":
		if g.kind != "domain" {
			return ""
		}
		return g.scheme + "://" + pick(t, "el", []string{".", "a.."}) + g.host + orStr2(g.port)
	}
	return ""
}

// c13Punct are bytes that belong to no scheme and to no host.
const c13Punct = ",;!$&'()=~^|\\{}<>\"`\x7f\x00\x80\xff%"

// genLongDomain builds a domain of exactly n bytes (n may exceed 253) from
// valid labels.
func genLongDomain(t *rapid.T, n int) string {
	var parts []string
	rem := n
	for rem > 0 {
		l := 50
		if rem <= 63 {
			l = rem
		} else if rem-l-1 < 1 {
			l = rem - 2
		}
		parts = append(parts, ldhLabel(t, "ll", l))
		rem -= l
		if rem > 0 {
			rem--
		}
	}
	return strings.Join(parts, ".")
}

func c13Gen(t *rapid.T) C13Case {
	g, notable := genValidPattern(t)
	if chance(t, "valid", 45) {
		c := C13Case{Pattern: Str(g.String()), Valid: true, Notable: notable}
		if chance(t, "companions", 40) {
			for i, n := 0, intIn(t, "ncomp", 1, 5); i < n; i++ {
				x := g
				strip := func(h string, n int) string {
					for ; n > 0; n-- {
						if i := strings.IndexByte(h, '.'); i >= 0 && i+1 < len(h) && h[i+1:] != "." {
							h = h[i+1:]
						}
					}
					return h
				}
				switch uniform(t, "compkind", 9) {
				case 5: // an ancestor domain, listed plainly
					if g.kind == "domain" {
						x.wild, x.host = false, strip(g.host, intIn(t, "up", 1, 2))
						x.port = pick(t, "ancport", []string{g.port, "", "8443"})
					}
				case 6: // a wildcard over an ancestor domain (it covers the pattern's host only if scheme and port agree)
					if g.kind == "domain" {
						x.wild, x.host = true, strip(g.host, intIn(t, "up2", 1, 3))
						x.port = pick(t, "wildport", []string{g.port, "", "*", "8443"})
					}
				case 7: // a descendant
					if g.kind == "domain" && len(g.host) < 200 {
						x.wild, x.host = false, pick(t, "sublabel", []string{"a", "b", "www", "x-1"})+"."+g.host
						x.port = pick(t, "subport", []string{g.port, "", "8443", "*"})
					}
				case 8: // a sibling
					if g.kind == "domain" && len(g.host) < 200 {
						x.wild, x.host = false, pick(t, "siblabel", []string{"a", "b", "www"})+"."+strip(g.host, 1)
					}
				case 0, 1:
					x.scheme = pick(t, "compscheme", []string{"http", "https", "ws", "wss", "capacitor", "app", "ftp", "a", "zz", "web+x", "httpss"})
				case 2:
					x.port = pick(t, "compport", []string{"", "*", "8080", "8443", "1", "65535"})
				case 3:
					x.scheme = genScheme(t, false)
					x.port = pick(t, "compport2", []string{"", "*", "8080", g.port})
				default:
					x, _ = genValidPattern(t)
				}
				if base := strings.TrimSuffix(x.host, "."); x.wild && (len(base) > 251 || (len(base) == 251 && base != x.host)) {
					x.wild = false // over the documented 251 bytes, or the undocumented corner *. + 251 bytes + trailing dot
				}
				if x.kind != "domain" && x.scheme == "https" {
					x.scheme = "http" // https with an IP host is an undocumented grey zone
				}
				if defaultPort(x.scheme, x.port) {
					x.port = ""
				}
				c.Companions = append(c.Companions, Str(x.String()))
			}
			c.Pos = uniform(t, "pos", len(c.Companions)+1)
		}
		return c
	}
	for {
		d := pick(t, "defect", c13Defects)
		if s := applyDefect(t, g, d); s != "" {
			c := C13Case{Pattern: Str(s), Valid: false, Defect: d}
			if chance(t, "badcompanions", 35) {
				// the defective string next to valid entries (often the single asterisk) at any position
				for i, n := 0, intIn(t, "nbadcomp", 1, 3); i < n; i++ {
					c.Companions = append(c.Companions, Str(pick(t, "badcomp", []string{"*", "*", "https://example.com", "https://*.example.com:*", "http://localhost:8080", g.String()})))
				}
				c.Pos = uniform(t, "badpos", len(c.Companions)+1)
			}
			return c
		}
	}
}

func c13Check(c C13Case, rec *Recorder) *Disc {
	p := string(c.Pattern)
	cfg := Cfg{Origins: SS(p), TolPSL: true, TolInsecure: true}
	m, err := cors.NewMiddleware(cfg.Cors())
	rec.Eval(1)
	if c.Valid {
		if err != nil {
			return discf("pattern %q is of the documented form but is rejected: %v", p, err)
		}
		if c.Notable != "" {
			rec.NonTrivial("valid", p)
			rec.Class("valid:" + c.Notable)
		} else {
			rec.Class("valid:plain")
		}
		pat, ok := SplitPat(p)
		if ok && !pat.Wild && pat.Port != "*" {
			rec.Class("self-match-probed")
			g, pf, bad := originVerdicts(m.Wrap, p)
			if bad != "" || !g || !pf {
				return discf("accepted wildcard-free pattern %q presented verbatim as Origin is not allowed by it (GET allowed=%v preflight allowed=%v %s)", p, g, pf, bad)
			}
		} else if ok {
			// wildcard patterns: an instance must be allowed
			o := instantiate(pat, "sub", "8080")
			if hostLenOK(o) {
				g, pf, bad := originVerdicts(m.Wrap, o)
				if bad != "" || !g || !pf {
					return discf("pattern %q does not allow its instance %q (GET %v preflight %v %s)", p, o, g, pf, bad)
				}
			}
		}
		if len(c.Companions) > 0 {
			// the same claims hold when the pattern is one of several in the list
			pos := min(max(c.Pos, 0), len(c.Companions))
			list := append(append(append([]Str{}, c.Companions[:pos]...), c.Pattern), c.Companions[pos:]...)
			cfg2 := Cfg{Origins: list, TolPSL: true, TolInsecure: true}
			m2, err2 := cors.NewMiddleware(cfg2.Cors())
			rec.Eval(1)
			if err2 != nil {
				return discf("patterns %q are each of the documented form but the list is rejected: %v", ss(list), err2)
			}
			rec.Class("with-companions")
			for _, q := range list {
				qp, ok := SplitPat(string(q))
				if !ok || qp.Wild || qp.Port == "*" {
					continue
				}
				g, pf, bad := originVerdicts(m2.Wrap, string(q))
				if bad != "" || !g || !pf {
					return discf("accepted wildcard-free pattern %q, listed among %q, presented verbatim as Origin is not allowed (GET allowed=%v preflight allowed=%v %s)", string(q), ss(list), g, pf, bad)
				}
			}
		}
		return nil
	}
	rec.NonTrivial("invalid", p)
	rec.Class("defect:" + c.Defect)
	if err == nil {
		return discf("pattern %q carries the documented defect %q but is accepted", p, c.Defect)
	}
	if m != nil {
		return discf("non-nil middleware with error for %q", p)
	}
	n := 0
	for e := range cfgerrors.All(err) {
		n++
		u, ok := e.(*cfgerrors.UnacceptableOriginPatternError)
		if !ok || u == nil {
			return discf("pattern %q (defect %s): error %T %v is not an *UnacceptableOriginPatternError", p, c.Defect, e, e)
		}
		if u.Value != p {
			return discf("pattern %q (defect %s): error names %q instead of the offending string", p, c.Defect, u.Value)
		}
		if u.Reason != "invalid" && u.Reason != "prohibited" {
			return discf("pattern %q (defect %s): Reason %q", p, c.Defect, u.Reason)
		}
		if (c.Defect == "null" || c.Defect == "file-scheme") && u.Reason != "prohibited" {
			return discf("pattern %q: documented as prohibited, reported as %q", p, u.Reason)
		}
	}
	if n < 1 {
		return discf("pattern %q (defect %s): no error reported: %v", p, c.Defect, err)
	}
	if len(c.Companions) > 0 {
		// the defect is reported wherever the string sits in the list and whatever is listed next to it
		pos := min(max(c.Pos, 0), len(c.Companions))
		list := append(append(append([]Str{}, c.Companions[:pos]...), c.Pattern), c.Companions[pos:]...)
		cfg2 := Cfg{Origins: list, TolPSL: true, TolInsecure: true}
		m2, err2 := cors.NewMiddleware(cfg2.Cors())
		rec.Eval(1)
		rec.Class("defect-with-companions")
		if err2 == nil || m2 != nil {
			return discf("pattern %q carries the documented defect %q but the list %q is accepted", p, c.Defect, ss(list))
		}
		named := false
		for e := range cfgerrors.All(err2) {
			if u, ok := e.(*cfgerrors.UnacceptableOriginPatternError); ok && u != nil && u.Value == p {
				named = true
			}
		}
		if !named {
			return discf("pattern %q (defect %s) listed among %q: the list is rejected but no UnacceptableOriginPatternError names the string: %v", p, c.Defect, ss(list), err2)
		}
	}
	return nil
}

func c13Prop() Prop[C13Case] {
	return Prop[C13Case]{ID: "C13", Gen: c13Gen, Check: c13Check,
		Rule: "generator: patterns built from the documented grammar (scheme up to 64 bytes incl. near-'file' schemes; LDH domains up to exactly 253 bytes, 63-byte labels, Punycode, trailing dot; IPv4/IPv6 canonical literals via net/netip; *. before domains up to 251 bytes; " +
			"ports absent/*/1..65535/other scheme's default; a forced 'every maximum at once' branch: 64-byte scheme + 253-byte domain + trailing dot + 5-digit port) - valid by construction - and 41 single-defect mutations of them - invalid by construction. " +
			"Oracle: valid => accepted, wildcard-free patterns match themselves verbatim (GET and preflight), wildcard patterns match an instance, and (40% of valid cases) the same when the pattern is listed at any position among 1-5 companion patterns (the same host under other schemes and ports, ancestor domains plain or under a wildcard, descendants, siblings, or unrelated valid patterns): the list is accepted and every wildcard-free member matches itself; invalid => rejected, every reported error an *UnacceptableOriginPatternError with Value == the string, Reason in {invalid, prohibited} (prohibited for null and file); and (35% of invalid cases) listed at any position among 1-3 valid entries (often the single asterisk) the list is rejected with an error naming the string. " +
			"non-trivial = valid pattern with a component at a documented maximum, an IP literal, Punycode or trailing dot, or any invalid pattern; distinct by pattern string.",
		Assumptions: []string{"grey zones not generated: https with IP host, '_' in schemes or labels, hyphens in label positions 3-4, TLD starting with a digit, *. + 251-byte domain + trailing dot"}}
}

func TestC13(t *testing.T) { c13Prop().Run(t) }

func FuzzC13(f *testing.F) { FuzzProp(f, c13Prop()) }
