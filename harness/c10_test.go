package harness

import (
	"fmt"
	"net/http"
	"strings"
	"testing"

	"pgregory.net/rapid"
)

// C10: Vary is sufficient: two requests with the same method that agree on
// every request header named in the first response's Vary get the same
// status and the same middleware-contributed headers.

type C10Case struct {
	Cfg    Cfg  `json:"cfg"`
	Debug  bool `json:"debug"`
	Preset []HV `json:"preset,omitempty"`
	R1     Req  `json:"r1"`
	Alt    Req  `json:"alt"` // r2 takes Vary-listed headers from r1 and everything else from here
	// Prelude, when set, is an earlier request on the same wrapped handler whose inner
	// handler rewrites in place the first value of every header it can reach (as a
	// later stage normalising Vary or CORS headers would).
	Prelude *Req `json:"prelude,omitempty"`
	// Between: serve the prelude between the two requests of the pair instead of before them.
	Between bool `json:"prelude_between,omitempty"`
}

func (c C10Case) Brief() any {
	return map[string]any{"cfg": c.Cfg, "debug": c.Debug, "preset": c.Preset, "r1": c.R1.Brief(), "alt": c.Alt.Brief(), "prelude": c.Prelude}
}

func varyNames(h map[string][]string) (names map[string]bool, star bool) {
	names = map[string]bool{}
	for _, line := range h[hVary] {
		for _, el := range strings.Split(line, ",") {
			el = strings.TrimSpace(el)
			if el == "*" {
				star = true
			}
			if el != "" {
				names[http.CanonicalHeaderKey(el)] = true
			}
		}
	}
	return
}

// deriveR2 builds the second request of the pair: same method, every header
// named in Vary copied from r1 (same presence, same value list), every other
// header taken from alt.
func deriveR2(r1, alt Req, vary map[string]bool) Req {
	r2 := Req{Method: r1.Method, Target: r1.Target, Proto: alt.Proto} // same method and URL (a cache keys on them), anything else may differ
	for _, h := range r1.Hdr {
		if vary[h.Key] {
			r2.Hdr = append(r2.Hdr, h)
		}
	}
	for _, h := range alt.Hdr {
		if !vary[h.Key] {
			if _, dup := r2.Get(h.Key); !dup {
				r2.Hdr = append(r2.Hdr, h)
			}
		}
	}
	return r2
}

// varyKept reports whether the Vary values set earlier in the chain (pre) are
// preserved in got: as the same leading field lines or, more liberally, as the
// same leading field NAMES once the lines are flattened (an implementation
// that appends ", Origin" to the last existing line preserves them as well).
func varyKept(pre, got []string) bool {
	if len(got) >= len(pre) && eqStrs(got[:len(pre)], pre) {
		return true
	}
	flat := func(lines []string) []string {
		var out []string
		for _, l := range lines {
			for _, el := range strings.Split(l, ",") {
				if n := strings.Trim(el, " \t"); n != "" {
					out = append(out, n)
				}
			}
		}
		return out
	}
	a, b := flat(pre), flat(got)
	return len(b) >= len(a) && eqStrs(b[:len(a)], a)
}

func sameHV(a, b Req, key string) bool {
	va, oka := a.Get(key)
	vb, okb := b.Get(key)
	if oka != okb || len(va) != len(vb) || (va == nil) != (vb == nil) {
		return false
	}
	for i := range va {
		if va[i].String() != vb[i].String() {
			return false
		}
	}
	return true
}

// presetVaryPool: Vary values an outer handler may have set: unrelated names,
// the middleware's own names (any case), and near-misses of them (names that
// merely contain "Origin" or an Access-Control-Request-* name as a substring,
// alone or next to other names on the same line).
var presetVaryPool = []string{"before", "Accept-Encoding", "Cookie, X-Thing", "Origin", "origin", "X-Original-Host", "X-Forwarded-Origin", "Origin-Agent-Cluster", "Sec-Origin-Policy",
	"X-Origin", "Access-Control-Request-Methods", "X-Access-Control-Request-Headers", "Access-Control-Request-Method", "Access-Control-Request-Headers, Origin",
	"Access-Control-Request-Headers, Access-Control-Request-Method, Access-Control-Request-Private-Network, Origin", "Access-Control-Request-Private-Networks", "Accept, Original-Url",
	"Accept-Encoding, Origin", "X-Origin-Region", "Accept-Language, X-Origin-Region, Cookie", "Origin, Accept-Encoding"}

func c10Gen(t *rapid.T) C10Case {
	c := C10Case{Cfg: genValidCfg(t), Debug: chance(t, "debug", 40)}
	p := poolsOf(c.Cfg)
	c.R1 = genReq(t, p)
	c.Alt = genReq(t, p)
	c.Alt.Method = c.R1.Method
	// Vary values set earlier in the chain: unrelated names, the middleware's
	// own names (any case), and near-misses of them (names that merely
	// contain "Origin" or an Access-Control-Request-* name as a substring)
	switch k := uniform(t, "preset", 100); {
	case k < 40:
	case k < 75:
		c.Preset = []HV{{hVary, Vals(pick(t, "vary1", presetVaryPool))}}
	case k < 88:
		c.Preset = []HV{{hVary, Vals(pick(t, "vary1", presetVaryPool), pick(t, "vary2", presetVaryPool))}, {"X-Pre", Vals("1")}}
	case k < 95:
		c.Preset = []HV{{"X-Pre", Vals("1", "2")}}
	default:
		c.Preset = []HV{{hVary, Vals("*")}}
	}
	if chance(t, "prelude", 30) {
		var r Req
		switch uniform(t, "preludekind", 4) {
		case 0:
			r = Req{Method: pick(t, "pm", []string{"GET", "POST", "OPTIONS"})}
		case 1:
			r = Actual(pick(t, "pm2", []string{"GET", "PUT", "OPTIONS"}), pick(t, "po", p.allowed))
		default:
			r = genReq(t, p)
		}
		c.Prelude = &r
		c.Between = chance(t, "between", 50)
	}
	return c
}

// rewritingHandler overwrites in place index 0 of every value list reachable from the response and request headers.
func rewritingHandler(w http.ResponseWriter, r *http.Request) {
	for k, vs := range w.Header() {
		if len(vs) > 0 {
			vs[0] = map[string]string{hVary: "X-Rewritten", hACAO: "https://rewritten.example"}[k]
		}
	}
	for _, vs := range r.Header {
		if len(vs) > 0 {
			vs[0] = "rewritten"
		}
	}
	w.WriteHeader(200)
}

func c10Check(c C10Case, rec *Recorder) *Disc {
	m, err := mkMW(c.Cfg, c.Debug)
	if err != nil {
		rec.Class("rejected-config")
		return nil
	}
	srv := NewServer(m.Wrap) // one wrapped handler for the prelude and the pair
	if c.Prelude != nil && !c.Between {
		rec.Class("with-prelude")
		DoScript(srv.Wrap, *c.Prelude, nil, rewritingHandler)
	}
	resp1 := Do(srv.Wrap, c.R1, c.Preset)
	rec.Eval(1)
	// pre-set Vary values are preserved, as a prefix
	var pre []string
	for _, h := range c.Preset {
		if h.Key == hVary {
			pre = Strs(h.Vals)
		}
	}
	got := resp1.Hdr[hVary]
	if !varyKept(pre, got) {
		return discf("cfg %+v debug=%v request {%s}: Vary set earlier in the chain %q is not preserved as a prefix of the response's Vary %q", c.Cfg, c.Debug, c.R1.Brief(), pre, got)
	}
	for _, h := range c.Preset {
		if h.Key != hVary && !eqStrs(resp1.Hdr[h.Key], Strs(h.Vals)) {
			return discf("cfg %+v request {%s}: pre-set header %s changed from %q to %q", c.Cfg, c.R1.Brief(), h.Key, Strs(h.Vals), resp1.Hdr[h.Key])
		}
	}
	vary, star := varyNames(resp1.Hdr)
	if star {
		rec.Class("skipped-vary-star")
		return nil
	}
	r2 := deriveR2(c.R1, c.Alt, vary)
	if c.Prelude != nil && c.Between {
		// what is served between the two requests of the pair does not matter either
		rec.Class("with-request-in-between")
		DoScript(srv.Wrap, *c.Prelude, nil, rewritingHandler)
	}
	resp2 := Do(srv.Wrap, r2, c.Preset)
	rec.Eval(1)
	differs := false
	for _, k := range []string{hOrigin, hACRM, hACRH, hACRPN} {
		if !sameHV(c.R1, r2, k) {
			differs = true
		}
	}
	if differs {
		rec.NonTrivialHash(h64(fmt.Sprintf("%+v|%v|%v", c.Cfg, c.Debug, c.Preset), c.R1.Brief(), r2.Brief()))
		rec.Class("pair-differs-in-cors-request-header")
	} else {
		rec.Class("pair-differs-elsewhere-only")
	}
	switch {
	case len(vary) == 0:
		rec.Class("vary:none")
	case vary[hACRM]:
		rec.Class("vary:preflight-four")
	default:
		rec.Class("vary:origin")
	}
	if resp1.Sig() != resp2.Sig() {
		return discf("cfg %+v debug=%v preset %v: requests {%s} and {%s} have the same method and agree on every header named in the first response's Vary %q, but get different responses: %s vs %s",
			c.Cfg, c.Debug, c.Preset, c.R1.Brief(), r2.Brief(), got, abbrev(resp1.Sig(), 500), abbrev(resp2.Sig(), 500))
	}
	return nil
}

func TestC10(t *testing.T) {
	Prop[C10Case]{ID: "C10", Gen: c10Gen, Check: c10Check,
		Rule: "generator: valid configuration x debug x pre-set response headers (none, one or several Vary lines, Vary: Origin, rarely Vary: *) x constant inner handler x (30%) another request on the same wrapped handler (before the pair, or between its two requests) whose inner handler rewrites in place the first value of every header slice it can reach x arbitrary request r1 x independently drawn alternative request with the same method; " +
			"r2 = every header named in the first response's Vary copied from r1 (same presence and value list), every other header taken from the alternative. Oracle: identical status and headers for r1 and r2; pre-set Vary values are a prefix of the response's Vary; other pre-set headers unchanged. " +
			"non-trivial = r2 differs from r1 in presence or value of at least one of Origin/ACRM/ACRH/ACRPN; pairs under Vary: * are skipped and counted; distinct by (configuration, debug, preset, r1, r2).",
		Assumptions: []string{"'present with zero values' and 'absent' are treated as different, so r2 copies presence exactly (no wire request can produce the former)"}}.Run(t)
}
