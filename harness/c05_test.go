package harness

import (
	"fmt"
	"strings"
	"testing"
	"unicode/utf8"

	"github.com/jub0bs/cors"
	"pgregory.net/rapid"
)

// C05: every valid configuration is accepted; every violation is reported,
// typed. C04: no insecure or out-of-range configuration is ever accepted.

type CfgCase struct {
	Cfg Cfg `json:"cfg"`
	Mix int `json:"mix"`
}

func c05Gen(t *rapid.T) CfgCase {
	mix := atomMix(uniform(t, "mix", 3))
	return CfgCase{Cfg: genAtomCfg(t, mix), Mix: int(mix)}
}

func fieldsWithViolations(exp []ExpErr) int {
	f := map[string]bool{}
	for _, e := range exp {
		s := string(e)
		switch {
		case strings.HasPrefix(s, "UnacceptableOriginPattern"), strings.HasPrefix(s, "IncompatibleOriginPattern"):
			f["origins"] = true
		case strings.HasPrefix(s, "UnacceptableMethod"):
			f["methods"] = true
		case strings.Contains(s, "|request|"):
			f["reqhdrs"] = true
		case strings.Contains(s, "|response|"), s == "IncompatibleWildcardResponseHeaderName":
			f["reshdrs"] = true
		case strings.HasPrefix(s, "MaxAge"):
			f["maxage"] = true
		case strings.HasPrefix(s, "Preflight"):
			f["status"] = true
		default:
			f["pna"] = true
		}
	}
	return len(f)
}

func optionalFeatures(c Cfg) int {
	n := 0
	for _, b := range []bool{c.Credentialed, c.PNA || c.PNANoCORS, c.TolInsecure, c.TolPSL, len(c.Methods) > 0, len(c.RequestHeaders) > 0,
		len(c.ResponseHeaders) > 0, c.MaxAge != 0, c.Status != 0, len(c.Origins) > 1} {
		if b {
			n++
		}
	}
	return n
}

func c05Check(cc CfgCase, rec *Recorder) *Disc {
	c := cc.Cfg
	exp, ok := Violations(c)
	if !ok {
		return nil // not made of labelled atoms (foreign replay file)
	}
	rec.Eval(1)
	var held []heldErr
	// one Config value (one set of backing arrays) is handed to all three calls, as a caller who keeps
	// its Config around would do: what is wrong with it is the same every time
	shared := c.Cors()
	// the same configuration with every EMPTY list spelled as an empty non-nil slice (what decoding `[]` from JSON, or
	// re-slicing, yields): nothing in the documentation tells nil and empty apart
	emptied := c.Cors()
	for _, l := range []*[]string{&emptied.Origins, &emptied.Methods, &emptied.RequestHeaders, &emptied.ResponseHeaders} {
		if len(*l) == 0 {
			*l = make([]string, 0, 2)
		}
	}
	for pass := 0; pass < 6; pass++ {
		var (
			m   *cors.Middleware
			err error
		)
		switch pass {
		case 0, 2:
			m, err = cors.NewMiddleware(shared)
		case 1:
			m = new(cors.Middleware)
			err = m.Reconfigure(&shared)
		case 3:
			// a middleware that is configured already (debug on): same report, whatever state the call starts from
			m, _ = cors.NewMiddleware(cors.Config{Origins: []string{"https://live.example"}, RequestHeaders: []string{"X-Live"}})
			m.SetDebug(true)
			err = m.Reconfigure(&shared)
		case 4:
			m, err = cors.NewMiddleware(emptied)
		case 5:
			m = new(cors.Middleware)
			err = m.Reconfigure(&emptied)
		}
		entry := []string{"NewMiddleware", "Reconfigure (same Config value again)", "NewMiddleware (same Config value a third time)", "Reconfigure on a configured middleware in debug mode",
			"NewMiddleware (empty lists as empty non-nil slices)", "Reconfigure (empty lists as empty non-nil slices)"}[pass]
		if len(exp) == 0 {
			if err != nil {
				return discf("%s rejects a configuration assembled only from documented-permitted settings: %+v: %v", entry, c, err)
			}
			if m == nil {
				return discf("%s: nil middleware with nil error: %+v", entry, c)
			}
			continue
		}
		if err == nil {
			return discf("%s accepts %+v although it contains violations %v", entry, c, exp)
		}
		if (pass == 0 || pass == 2 || pass == 4) && m != nil {
			return discf("NewMiddleware returned a non-nil middleware together with error: %+v", c)
		}
		obs, bad := ObservedErrors(err)
		if bad != "" {
			return discf("%s(%+v): %s", entry, c, bad)
		}
		if why := matchErrors(exp, obs); why != "" {
			return discf("%s(%+v): %s; expected %v, cfgerrors.All yielded %v", entry, c, why, exp, obs)
		}
		held = append(held, heldErr{entry, err, fmt.Sprintf("%+v", obs), err.Error()})
	}
	// An error is a report about the configuration that was supplied with it: it keeps carrying
	// those values after other configurations (with other offending values of the same kinds) have
	// been validated, by this or another middleware.
	if len(held) > 0 {
		for _, other := range []Cfg{shiftedCfg(c), pokeCfg} {
			cors.NewMiddleware(other.Cors())
			oc := other.Cors()
			new(cors.Middleware).Reconfigure(&oc)
		}
		for _, h := range held {
			obs, bad := ObservedErrors(h.err)
			if now := fmt.Sprintf("%+v", obs); bad != "" || now != h.obs || h.err.Error() != h.msg {
				return discf("the error returned by %s(%+v) changed after other configurations were validated: cfgerrors.All yielded %s then, %s now (%s); message %q then, %q now", h.entry, c, h.obs, now, bad, h.msg, h.err.Error())
			}
		}
	}
	switch {
	case len(exp) == 0:
		rec.Class("all-valid")
		if optionalFeatures(c) >= 3 {
			rec.NonTrivialHash(h64(fmt.Sprintf("%+v", c)))
		}
	case len(exp) == 1:
		rec.Class("one-error")
	default:
		rec.Class(fmt.Sprintf("errors-%s", bucket(len(exp))))
		if fieldsWithViolations(exp) >= 2 {
			rec.NonTrivialHash(h64(fmt.Sprintf("%+v", c)))
		}
	}
	return nil
}

type heldErr struct {
	entry string
	err   error
	obs   string
	msg   string
}

// shiftedCfg is c with every out-of-bounds integer moved further out and every list reversed.
func shiftedCfg(c Cfg) Cfg {
	x := c
	switch {
	case c.MaxAge > 86400:
		x.MaxAge = c.MaxAge + 1
	case c.MaxAge < -1:
		x.MaxAge = c.MaxAge - 1
	}
	if c.Status != 0 && (c.Status < 200 || c.Status > 299) {
		x.Status = c.Status + 1000
	}
	rev := func(in []Str) []Str {
		out := make([]Str, len(in))
		for i, v := range in {
			out[len(in)-1-i] = v
		}
		return out
	}
	x.Origins, x.Methods, x.RequestHeaders, x.ResponseHeaders = rev(c.Origins), rev(c.Methods), rev(c.RequestHeaders), rev(c.ResponseHeaders)
	return x
}

// pokeCfg violates every kind of rule at once with values no generated configuration uses.
var pokeCfg = Cfg{Origins: SS("https://poke.example/path", "null", "*", "http://poke.example", "https://*.com"), Credentialed: true,
	Methods: SS("PO KE", "CONNECT"), RequestHeaders: SS("po ke", "Access-Control-Poke", "Sec-Poke"), ResponseHeaders: SS("po ke", "*", "Set-Cookie"),
	MaxAge: -777, Status: 777, PNA: true, PNANoCORS: true}

func bucket(n int) string {
	switch {
	case n <= 3:
		return "2-3"
	case n <= 6:
		return "4-6"
	case n <= 12:
		return "7-12"
	}
	return "13+"
}

func TestC05(t *testing.T) {
	Prop[CfgCase]{ID: "C05", Gen: c05Gen, Check: c05Check,
		Rule: "generator: configurations built only from labelled atoms (origin patterns: valid / insecure / public-suffix wildcard / 70 strings each with one documented defect; methods, request- and response-header names: valid / forbidden / prohibited / invalid in several letter cases; integers at and around each bound; all switch combinations), " +
			"three balanced classes: all valid, exactly one planted violation, many simultaneous violations in any position and multiplicity. Oracle: multiset of documented typed errors (type, Value as supplied, Type, Reason, bounds) == cfgerrors.All sequence, for NewMiddleware, for Reconfigure on a zero value, for NewMiddleware again and for Reconfigure on a configured middleware in debug mode, all given the SAME Config value (same backing arrays), then for NewMiddleware and Reconfigure given the configuration with its empty lists spelled as empty non-nil slices; the errors are inspected again, and must be unchanged, after a shifted copy of the configuration (every out-of-bounds integer moved, lists reversed) and a configuration violating every rule have been validated. " +
			"non-trivial = >=2 simultaneous violations in >=2 different fields, or an all-valid configuration using >=3 optional features; distinct by configuration.",
		Assumptions: []string{"atom labels are taken from the Config/ExtraConfig/cfgerrors documentation and the Fetch forbidden-name lists",
			"for malformed origin patterns the documentation does not say which of invalid/prohibited applies, so either is accepted (except null and file:, documented as prohibited)"}}.Run(t)
}

// ---------------------------------------------------------------------------
// C04

// classifyOriginJunk is the conservative three-valued classifier for
// unlabelled origin strings: aInvalid only when a documented defect is
// syntactically evident; everything else is grey (not judged).
func classifyOriginJunk(s string) atomClass {
	if s == "*" {
		return aGrey // handled by the cross-field rules
	}
	if s == "" || s == "null" {
		return aInvalid
	}
	if !utf8.ValidString(s) {
		return aInvalid
	}
	for i := 0; i < len(s); i++ {
		b := s[i]
		if b >= 0x80 || b <= ' ' || b == 0x7f || ('A' <= b && b <= 'Z') {
			return aInvalid // Unicode, whitespace, control bytes, upper case
		}
	}
	i := strings.Index(s, "://")
	if i < 0 {
		return aInvalid
	}
	scheme, rest := s[:i], s[i+3:]
	if scheme == "file" || scheme == "" {
		return aInvalid
	}
	if strings.ContainsAny(rest, "/?#@") {
		return aInvalid // path, query, fragment, userinfo
	}
	if strings.Count(s, "*") > 2 {
		return aInvalid
	}
	// wildcard positions
	host := rest
	port := ""
	if strings.HasPrefix(rest, "[") {
		j := strings.IndexByte(rest, ']')
		if j < 0 {
			return aInvalid
		}
		host = rest[:j+1]
		if rest[j+1:] != "" {
			if rest[j+1] != ':' {
				return aInvalid
			}
			port = rest[j+1:]
		}
		if strings.Contains(host, "*") {
			return aInvalid
		}
	} else if k := strings.IndexByte(rest, ':'); k >= 0 {
		host, port = rest[:k], rest[k:]
	}
	if strings.Contains(host, "*") && !(strings.HasPrefix(host, "*.") && !strings.Contains(host[2:], "*")) {
		return aInvalid
	}
	if port != "" {
		p := port[1:]
		if p != "*" {
			if !portOK(p) {
				return aInvalid
			}
			if defaultPort(scheme, p) {
				return aInvalid
			}
		}
	}
	if !strings.HasPrefix(host, "[") {
		h := strings.TrimSuffix(strings.TrimPrefix(host, "*."), ".")
		if len(h) > 253 {
			return aInvalid
		}
		for _, l := range strings.Split(h, ".") {
			if len(l) > 63 || l == "" {
				return aInvalid
			}
		}
	}
	return aGrey
}

func genJunkOrigin(t *rapid.T) string {
	switch uniform(t, "junkkind", 6) {
	case 0:
		return genBytes(t, "ojunk", 30)
	case 1:
		// mutate a valid atom by one byte
		s := []byte(pickOriginAtom(t, false))
		i := uniform(t, "mutpos", len(s))
		s[i] = "a:/.[]*@?# A0\x00\xc3-"[uniform(t, "mutbyte", 16)]
		return string(s)
	case 2:
		s := pickOriginAtom(t, false)
		i := uniform(t, "inspos", len(s)+1)
		return s[:i] + pick(t, "ins", []string{"*", ":", "/", ".", "@", " ", "*.", ":0", ":80", ":443", "é"}) + s[i:]
	case 3:
		s := pickOriginAtom(t, false)
		i := uniform(t, "delpos", len(s))
		return s[:i] + s[i+1:]
	case 4:
		return pick(t, "sch", []string{"http", "https", "file", "ftp", ""}) + pick(t, "sep", []string{"://", ":/", ":", "//"}) + genBytes(t, "ohost", 12)
	default:
		return pick(t, "sch2", []string{"http", "https"}) + "://" + pick(t, "h", []string{"example.com", "*.example.com", "localhost", "127.0.0.1", "[::1]"}) + ":" +
			pick(t, "p", []string{"0", "00", "01", "80", "443", "65535", "65536", "99999", "100000", "*", "**", "8*", "", "-1", "8080"})
	}
}

func c04Gen(t *rapid.T) CfgCase {
	c := genAtomCfg(t, atomMix(uniform(t, "mix", 3)))
	// sprinkle junk into any position of any list
	sprinkle := func(list []Str, gen func() string) []Str {
		for i, n := 0, uniform(t, "njunk", 3); i < n; i++ {
			list = insertAt(t, list, gen())
		}
		return list
	}
	if chance(t, "ojunk", 60) {
		c.Origins = sprinkle(c.Origins, func() string { return genJunkOrigin(t) })
	}
	if chance(t, "mjunk", 30) {
		c.Methods = sprinkle(c.Methods, func() string { return genBytes(t, "mj", 8) })
	}
	if chance(t, "hjunk", 30) {
		c.RequestHeaders = sprinkle(c.RequestHeaders, func() string { return genBytes(t, "hj", 8) })
	}
	if chance(t, "rjunk", 30) {
		c.ResponseHeaders = sprinkle(c.ResponseHeaders, func() string { return genBytes(t, "rj", 8) })
	}
	if chance(t, "intjunk", 20) {
		c.MaxAge = rapid.Int().Draw(t, "maxage")
	}
	if chance(t, "intjunk2", 20) {
		c.Status = rapid.IntRange(-1000, 1000).Draw(t, "status")
	}
	return CfgCase{Cfg: c, Mix: 3}
}

// definiteViolations lists everything in c that certainly violates a
// documented prohibition: the cross-field and atom violations the oracle
// knows plus syntactically evident junk.
func definiteViolations(c Cfg) []string {
	exp, _ := Violations(c)
	var out []string
	for _, e := range exp {
		out = append(out, string(e))
	}
	for _, o := range c.Origins {
		if _, ok := findOriginAtom(string(o)); ok || o == "*" {
			continue
		}
		if classifyOriginJunk(string(o)) == aInvalid {
			out = append(out, fmt.Sprintf("junk origin pattern %q", string(o)))
		}
	}
	junkName := func(kind string, list []Str, atoms []nameAtom) {
		for _, s := range list {
			if _, ok := findName(atoms, string(s)); ok || s == "*" {
				continue
			}
			if !isToken(string(s)) {
				out = append(out, fmt.Sprintf("junk %s %q is not a token", kind, string(s)))
			}
		}
	}
	junkName("method", c.Methods, methodAtomsL)
	junkName("request-header name", c.RequestHeaders, reqHdrAtomsL)
	junkName("response-header name", c.ResponseHeaders, resHdrAtomsL)
	return out
}

func c04Check(cc CfgCase, rec *Recorder) *Disc {
	c := cc.Cfg
	bad := definiteViolations(c)
	rec.Eval(3)
	if len(bad) > 0 {
		rec.NonTrivialHash(h64(fmt.Sprintf("%+v", c)))
		rec.Class("has-definite-violation")
		for _, b := range bad {
			rec.Class("kind:" + strings.SplitN(strings.SplitN(b, "|", 2)[0], " ", 3)[0])
		}
	} else {
		rec.Class("no-definite-violation")
	}
	// entry point 1: NewMiddleware
	m, err := cors.NewMiddleware(c.Cors())
	if err != nil && m != nil {
		return discf("NewMiddleware returned a non-nil *Middleware together with a non-nil error for %+v", c)
	}
	if err == nil && m == nil {
		return discf("NewMiddleware returned nil, nil for %+v", c)
	}
	if err == nil && len(bad) > 0 {
		return discf("NewMiddleware accepted %+v although: %v", c, bad)
	}
	if err == nil {
		rec.Class("accepted")
	}
	// entry point 2: Reconfigure on a passthrough middleware
	z := new(cors.Middleware)
	cfg := c.Cors()
	if err2 := z.Reconfigure(&cfg); err2 == nil && len(bad) > 0 {
		return discf("Reconfigure (passthrough) accepted %+v although: %v", c, bad)
	} else if (err2 == nil) != (err == nil) {
		return discf("NewMiddleware and Reconfigure disagree on %+v: %v vs %v", c, err, err2)
	}
	// entry point 4: the get-modify-set workflow. Relax c (all switches off,
	// integers default) until it is valid, take that middleware's own Config()
	// and switch c's settings back on: Reconfigure must still notice what
	// NewMiddleware notices, whatever the middleware's current state is.
	relaxed := c
	relaxed.Credentialed, relaxed.PNA, relaxed.PNANoCORS, relaxed.MaxAge, relaxed.Status = false, false, false, 0, 0
	if mr, errR := cors.NewMiddleware(relaxed.Cors()); errR == nil {
		edited := CfgFromCors(mr.Config())
		edited.Credentialed, edited.PNA, edited.PNANoCORS, edited.MaxAge, edited.Status = c.Credentialed, c.PNA, c.PNANoCORS, c.MaxAge, c.Status
		if bad4 := definiteViolations(edited); len(bad4) > 0 {
			rec.Class("get-modify-set-invalid")
			e := edited.Cors()
			if err4 := mr.Reconfigure(&e); err4 == nil {
				return discf("Reconfigure accepted %+v on a middleware currently configured with %+v although: %v", edited, relaxed, bad4)
			}
		}
	}
	// entry point 5: Reconfigure on a middleware whose current configuration differs from c in ONE
	// respect only (same lists, element for element): what is wrong with c does not depend on what
	// the middleware holds, however much of the old configuration could be reused.
	if len(bad) > 0 {
		for _, pr := range nearPriors(c) {
			mp, errP := cors.NewMiddleware(pr.cfg.Cors())
			if errP != nil {
				continue
			}
			rec.Class("near-prior-valid")
			rec.Class("near-prior:" + pr.what)
			cfg5 := c.Cors()
			if err5 := mp.Reconfigure(&cfg5); err5 == nil {
				return discf("Reconfigure accepted %+v on a middleware currently configured with the same configuration except %s (%+v) although: %v", c, pr.what, pr.cfg, bad)
			}
		}
	}
	// entry point 3: Reconfigure on a configured middleware
	base, _ := cors.NewMiddleware(cors.Config{Origins: []string{"https://example.com"}})
	cfg3 := c.Cors()
	if err3 := base.Reconfigure(&cfg3); err3 == nil && len(bad) > 0 {
		return discf("Reconfigure (configured) accepted %+v although: %v", c, bad)
	}
	return nil
}

type nearPrior struct {
	what string
	cfg  Cfg
}

// nearPriors lists the configurations that differ from c in one setting (or
// one group of switches) only; the lists it keeps are kept verbatim.
func nearPriors(c Cfg) []nearPrior {
	var out []nearPrior
	add := func(what string, edit func(x *Cfg)) {
		x := c
		edit(&x)
		if fmt.Sprintf("%+v", x) != fmt.Sprintf("%+v", c) {
			out = append(out, nearPrior{what, x})
		}
	}
	add("both tolerate switches on", func(x *Cfg) { x.TolInsecure, x.TolPSL = true, true })
	add("DangerouslyTolerateInsecureOrigins on", func(x *Cfg) { x.TolInsecure = true })
	add("DangerouslyTolerateSubdomainsOfPublicSuffixes on", func(x *Cfg) { x.TolPSL = true })
	add("Credentialed off", func(x *Cfg) { x.Credentialed = false })
	add("PNA modes off", func(x *Cfg) { x.PNA, x.PNANoCORS = false, false })
	add("Credentialed and PNA modes off", func(x *Cfg) { x.Credentialed, x.PNA, x.PNANoCORS = false, false, false })
	add("default max-age and status", func(x *Cfg) { x.MaxAge, x.Status = 0, 0 })
	add("no Methods", func(x *Cfg) { x.Methods = nil })
	add("no RequestHeaders", func(x *Cfg) { x.RequestHeaders = nil })
	add("no ResponseHeaders", func(x *Cfg) { x.ResponseHeaders = nil })
	add("Origins https://example.com", func(x *Cfg) { x.Origins = SS("https://example.com") })
	return out
}

func TestC04(t *testing.T) {
	Prop[CfgCase]{ID: "C04", Gen: c04Gen, Check: c04Check,
		Rule: "generator: as C05 (labelled atoms, all switch combinations, integers around every bound) plus byte junk inserted at any position of any list (random bytes, one-byte mutations/insertions/deletions of valid patterns, scheme/separator/port recombinations) and full-range integers; " +
			"fed to NewMiddleware, Reconfigure on a passthrough, Reconfigure on an unrelated configured middleware, Reconfigure on a middleware configured with the relaxed variant of the same configuration (get-modify-set on its own Config()), and Reconfigure on middlewares whose current configuration is the same except for one setting (each tolerate switch on, Credentialed off, PNA off, default integers, one list emptied). Oracle (soundness only): nil error => no labelled violation and no syntactically evident defect; non-nil error => nil *Middleware. " +
			"non-trivial = configuration that contains at least one definite violation (an acceptance would be wrong); distinct by configuration.",
		Assumptions: []string{"junk strings are judged only when a documented defect is syntactically evident; all other junk is grey and not judged (completeness is C05's business)"}}.Run(t)
}
