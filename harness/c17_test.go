package harness

import (
	"bytes"
	"fmt"
	"net/http"
	"runtime"
	"strings"
	"sync/atomic"
	"testing"
	"time"

	"github.com/jub0bs/cors"
	"github.com/jub0bs/cors/cfgerrors"
	"pgregory.net/rapid"
)

// C17: no input can crash configuration or request handling.

type C17Case struct {
	Junk  Cfg   `json:"junk_cfg"`
	Valid Cfg   `json:"valid_cfg"`
	Debug bool  `json:"debug"`
	Reqs  []Req `json:"reqs"`
}

func (c C17Case) Brief() any {
	rs := make([]string, len(c.Reqs))
	for i, r := range c.Reqs {
		rs[i] = r.Brief()
	}
	j := c.Junk
	ab := func(in []Str) []Str {
		out := make([]Str, len(in))
		for i, s := range in {
			out[i] = Str(abbrev(string(s), 120))
		}
		return out
	}
	j.Origins, j.Methods, j.RequestHeaders, j.ResponseHeaders = ab(j.Origins), ab(j.Methods), ab(j.RequestHeaders), ab(j.ResponseHeaders)
	return map[string]any{"junk_cfg": j, "valid_cfg": c.Valid, "debug": c.Debug, "reqs": rs}
}

var (
	hostileSchemes = []string{"", "a", "http", "https", "file", strings.Repeat("a", 64), strings.Repeat("a", 65), "1a", "a+b-c.d", "A", "\x00", "http\xff"}
	hostileSeps    = []string{"://", "://", "://", ":/", ":", "", "//", ":///"}
	hostileHosts   = []string{"", "*", "*.", "[", "[]", "[::1", "]", "[::1]", "[::1]]", ".", "..", "a.", "a..b", "*.a", "*.*", "*.[::1]", "xn--", "xn--a", "xn--a.b",
		"127.0.0.1", "1", "1.", "0x1", "é", "\x00", "\xff", "localhost", strings.Repeat("a", 63) + ".b", strings.Repeat("a", 64) + ".b",
		strings.Repeat("a.", 126) + "b", strings.Repeat("a.", 127) + "b", strings.Repeat("a.", 125) + "bb.", "*." + strings.Repeat("a.", 125) + "b", "*." + strings.Repeat("a.", 126) + "b",
		"-", "-a", "a-", "a_b", "[::ffff:1.2.3.4]", "[fe80::1%25eth0]", "[" + strings.Repeat("1:", 40) + "]", "*.com", "*.com.", "com", "example.com"}
	hostilePorts = []string{"", "", ":", ":*", ":0", ":1", ":80", ":443", ":65535", ":65536", ":99999", ":100000", ":-1", ":*1", ":1*", ":٣", ":" + strings.Repeat("9", 30), ":8080"}
	hostileTails = []string{"", "", "", "/", " ", "\x00", "?", "#", ":", "@"}
)

func genHostileOrigin(t *rapid.T) string {
	if chance(t, "bytes", 15) {
		return genBytes(t, "ob", 40)
	}
	return pick(t, "hs", hostileSchemes) + pick(t, "hsep", hostileSeps) + pick(t, "hh", hostileHosts) + pick(t, "hp", hostilePorts) + pick(t, "ht", hostileTails)
}

func genHostileName(t *rapid.T) string {
	switch k := uniform(t, "namekind", 100); {
	case k < 25:
		return pick(t, "fixed", []string{"", "*", "**", "GET", "get", "CONNECT", "Authorization", "authorization", "Cookie", "proxy-", "sec-", "Access-Control-Allow-Origin", "\x00", "\xff", " ", ",", "a,b"})
	case k < 35:
		return strings.Repeat(pick(t, "unit", []string{"a", "-", "A", "\xc3\xa9"}), pick(t, "len", []int{1, 100, 1 << 12, 1 << 16}))
	default:
		return genBytes(t, "nb", 16)
	}
}

func genJunkCfg(t *rapid.T) Cfg {
	var c Cfg
	okPct := pick(t, "okpct", []int{35, 35, 97})
	list := func(label string, gen func() string, plausible []string) []Str {
		var out []Str
		for i, n := 0, uniform(t, label+"_n", 5); i < n; i++ {
			if chance(t, label+"_ok", okPct) {
				out = append(out, Str(pick(t, label+"_p", plausible)))
			} else {
				out = append(out, Str(gen()))
			}
		}
		return out
	}
	c.Origins = list("o", func() string { return genHostileOrigin(t) }, append([]string{"*"}, secureOriginAtoms...))
	c.Methods = list("m", func() string { return genHostileName(t) }, methodAtoms)
	c.RequestHeaders = list("h", func() string { return genHostileName(t) }, reqHdrAtoms)
	c.ResponseHeaders = list("r", func() string { return genHostileName(t) }, resHdrAtoms)
	c.Credentialed, c.PNA, c.PNANoCORS = chance(t, "c", 40), chance(t, "p", 30), chance(t, "q", 20)
	c.TolInsecure, c.TolPSL = chance(t, "ti", 50), chance(t, "tp", 50)
	c.MaxAge = pick(t, "ma", []int{0, -1, 1, 86400, 86401, -2, 1 << 62, -(1 << 62)})
	if chance(t, "marnd", 30) {
		c.MaxAge = rapid.Int().Draw(t, "maxage")
	}
	c.Status = pick(t, "st", []int{0, 200, 299, 199, 300, 455, 456, -56, 1 << 62, -(1 << 62), 200 + 256, 200 - 256})
	if chance(t, "strnd", 30) {
		c.Status = rapid.Int().Draw(t, "status")
	}
	if okPct > 90 {
		c.MaxAge = pick(t, "ma2", []int{0, -1, 86400, 86401})
		c.Status = pick(t, "st2", []int{0, 200, 299, 300})
		c.Credentialed, c.PNA, c.PNANoCORS = chance(t, "c2", 20), chance(t, "p2", 15), false
		c.TolInsecure, c.TolPSL = true, true
	}
	return c
}

func c17Gen(t *rapid.T) C17Case {
	c := C17Case{Junk: genJunkCfg(t), Valid: genValidCfg(t), Debug: chance(t, "debug", 50)}
	if chance(t, "wide", 5) {
		// many patterns around one base host (wide and deep lookup structures)
		c.Valid = Cfg{Origins: patStrings(genWidePatList(t)), TolInsecure: true, TolPSL: true, Methods: c.Valid.Methods, RequestHeaders: c.Valid.RequestHeaders}
	}
	p := poolsOf(c.Valid)
	for i, n := 0, intIn(t, "nreqs", 2, 10); i < n; i++ {
		r := genReq(t, p)
		if chance(t, "hostileorigin", 35) {
			r = r.With(hOrigin, genHostileOrigin(t))
		}
		c.Reqs = append(c.Reqs, r)
	}
	if chance(t, "hostilebytes", 30) {
		// bytes no host may contain, right where the listed hosts branch out
		for i := 0; i < 4; i++ {
			o := hostileByteOrigin(t, pick(t, "hostilebase", p.allowed))
			if chance(t, "hostilepreflight", 50) {
				c.Reqs = append(c.Reqs, Preflight(o, "PUT"))
			} else {
				c.Reqs = append(c.Reqs, Actual("GET", o))
			}
		}
	}
	return c
}

// exercise runs every entry point on one input; it returns a description of
// how far the input got. Panics are caught by the caller.
func c17Exercise(c C17Case, rec *Recorder) {
	useAll := func(err error) {
		if err == nil {
			return
		}
		n := 0
		for e := range cfgerrors.All(err) {
			if e != nil {
				_ = e.Error()
			}
			n++
		}
		_ = err.Error()
		// a consumer may stop anywhere: All must return without panicking then, too
		for stop := 0; stop < n && stop < 12; stop++ {
			i := 0
			for range cfgerrors.All(err) {
				if i == stop {
					break
				}
				i++
			}
		}
	}
	serve := func(m *cors.Middleware, reqs []Req) {
		for _, r := range reqs {
			Do(m.Wrap, r, nil)
			if rec != nil {
				rec.Eval(1)
			}
		}
		// degenerate but constructible *http.Request values: no header map, no URL, empty method
		h := m.Wrap(noopHandler)
		for _, hr := range []*http.Request{
			{Method: "GET"}, {Method: "OPTIONS"}, {Method: "", Header: http.Header{"Origin": {"https://example.com"}}},
			{Method: "OPTIONS", Header: http.Header{"Origin": nil, "Access-Control-Request-Method": nil}},
			{Method: "OPTIONS", Header: http.Header{"Origin": {}, "Access-Control-Request-Method": {}, "Access-Control-Request-Headers": {}, "Access-Control-Request-Private-Network": {}}},
		} {
			h.ServeHTTP(NewRec(nil), hr)
			if rec != nil {
				rec.Eval(1)
			}
		}
	}
	// arbitrary Config through every entry point
	m, err := cors.NewMiddleware(c.Junk.Cors())
	useAll(err)
	if rec != nil {
		rec.Eval(1)
	}
	if err == nil {
		if rec != nil {
			rec.Class("junk-config-accepted")
		}
		m.SetDebug(c.Debug)
		_ = m.Config()
		if cfg := m.Config(); cfg != nil {
			useAll(m.Reconfigure(cfg))
		}
		serve(m, c.Reqs)
	} else if rec != nil {
		rec.Class("junk-config-rejected")
	}
	z := new(cors.Middleware)
	jc := c.Junk.Cors()
	useAll(z.Reconfigure(&jc))
	_ = z.Config()
	serve(z, c.Reqs[:min(2, len(c.Reqs))])
	// arbitrary requests under an accepted configuration
	v, err := mkMW(c.Valid, c.Debug)
	if err != nil {
		return
	}
	jc2 := c.Junk.Cors()
	useAll(v.Reconfigure(&jc2))
	_ = v.Config()
	serve(v, c.Reqs)
}

func c17Check(c C17Case, rec *Recorder) *Disc {
	c17Exercise(c, rec) // a panic is turned into a discrepancy by the runner
	plausible := func(list []Str, marker string) bool {
		for _, s := range list {
			if marker == "" && isToken(string(s)) || marker != "" && strings.Contains(string(s), marker) {
				return true
			}
		}
		return false
	}
	if plausible(c.Junk.Origins, "://") && plausible(c.Junk.Methods, "") && plausible(c.Junk.RequestHeaders, "") {
		rec.NonTrivialHash(h64(fmt.Sprintf("%+v", c.Junk)))
		rec.Class("config-reaches-past-first-validation-step")
	}
	for _, r := range c.Reqs {
		if o, ok := firstVal(r, hOrigin); ok && strings.Contains(o, "://") {
			rec.NonTrivialHash(h64(fmt.Sprintf("%+v|%v", c.Valid, c.Debug), r.Brief()))
			rec.Class("request-origin-parses-to-host")
		}
	}
	return nil
}

func TestC17(t *testing.T) {
	Prop[C17Case]{ID: "C17", Gen: c17Gen, Check: c17Check,
		Rule: "generator: Config values whose lists mix plausible entries with hostile strings (recombinations of hostile scheme/separator/host/port/tail constants: empty, lone [, *, *., 64/65-byte schemes, 253/254-byte hosts, 63/64-byte labels, ports :0 :65536 :100000 :* :*1, NUL/0x80/0xFF bytes; random bytes; 1 B - 64 KiB names) and full-range integers, " +
			"through NewMiddleware, Reconfigure (zero value and configured), Config, Reconfigure(Config()), cfgerrors.All (iterated to the end and with a consumer that stops at each position) and every Error(); plus 2-10 arbitrary requests (incl. hostile Origin values, 1 MiB values, multi/zero-valued fields) and five degenerate *http.Request values (nil header map, nil URL, empty method, nil and empty value lists) under the junk configuration if accepted and under a valid configuration, both debug modes. " +
			"Oracle: no panic anywhere. non-trivial = Config with a syntactically plausible entry in each of Origins/Methods/RequestHeaders, or a request whose Origin contains '://'; distinct by input.",
		Assumptions: []string{"errors are not violations; only panics (and runtime fatal errors, which kill the process and are reported by the driver) are"}}.Run(t)
}

// ---------------------------------------------------------------------------
// native coverage-guided fuzzing (thorough tier)

func splitLines(b []byte) []Str {
	if len(b) == 0 {
		return nil
	}
	var out []Str
	for _, p := range bytes.Split(b, []byte{'\n'}) {
		out = append(out, Str(p))
	}
	return out
}

func FuzzConfig(f *testing.F) {
	f.Add([]byte("https://example.com\nhttps://*.example.com:*"), []byte("PUT\n*"), []byte("Authorization\n*"), []byte("X-Resp"), uint8(0), 0, 0)
	f.Add([]byte("*"), []byte(""), []byte(""), []byte("*"), uint8(1), -1, 204)
	f.Add([]byte("http://[::1]:9090\nhttp://127.0.0.1:*\nhttp://*.com."), []byte("connect"), []byte("proxy-x"), []byte("set-cookie"), uint8(0x1f), 86401, 199)
	for _, o := range []string{"[", "*.", "://", "a://", strings.Repeat("a", 64) + "://" + strings.Repeat("a.", 126) + "b.:65535", "http://*.", "http://[", "http://[]", "http://[::1", "http://a:",
		"http://a:*1", "http://xn--", "http://*.xn--a", "http://" + strings.Repeat("a", 64), "http://1", "http://1.1.1.1.", "http://\x00", "http://\xff", "null", "file://x"} {
		f.Add([]byte(o), []byte("GET"), []byte("x"), []byte("x"), uint8(0x18), 5, 200)
	}
	f.Fuzz(func(t *testing.T, origins, methods, reqHdrs, resHdrs []byte, flags uint8, maxAge, status int) {
		c := Cfg{Origins: splitLines(origins), Methods: splitLines(methods), RequestHeaders: splitLines(reqHdrs), ResponseHeaders: splitLines(resHdrs),
			Credentialed: flags&1 != 0, PNA: flags&2 != 0, PNANoCORS: flags&4 != 0, TolInsecure: flags&8 != 0, TolPSL: flags&16 != 0, MaxAge: maxAge, Status: status}
		m, err := cors.NewMiddleware(c.Cors())
		if (err == nil) != (m != nil) {
			t.Fatalf("nil-ness of middleware and error disagree for %+v", c)
		}
		if err != nil {
			for e := range cfgerrors.All(err) {
				if e == nil || !strings.HasPrefix(e.Error(), "cors: ") {
					t.Fatalf("bad leaf error %v for %+v", e, c)
				}
			}
			return
		}
		// semantic invariants inside the target: an accepted configuration has no
		// syntactically evident defect and round-trips through Config()
		if bad := definiteViolations(c); len(bad) > 0 {
			t.Fatalf("accepted %+v although %v", c, bad)
		}
		c2 := m.Config()
		if err := m.Reconfigure(c2); err != nil {
			t.Fatalf("Reconfigure(Config()) fails for %+v: %v", c, err)
		}
		for _, r := range []Req{Actual("GET", "https://example.com"), Preflight("https://example.com", "PUT", "x-foo"), {Method: "OPTIONS"}} {
			Do(m.Wrap, r, nil)
		}
	})
}

var fuzzServeCfgs = []Cfg{
	{Origins: SS("https://example.com", "https://*.example.com:*", "http://localhost:*", "http://[::1]:9090", "http://127.0.0.1"), Methods: SS("PUT", "patch"), RequestHeaders: SS("X-Foo", "Authorization", "x-bar"), MaxAge: 30, ResponseHeaders: SS("X-Resp")},
	{Origins: SS("*"), Methods: SS("*"), RequestHeaders: SS("*", "Authorization"), ResponseHeaders: SS("*"), MaxAge: -1},
	{Origins: SS("https://example.com", "https://*.example.org."), Credentialed: true, Methods: SS("*"), RequestHeaders: SS("*"), PNA: true, Status: 200},
	{Origins: SS("https://example.com"), Credentialed: true, PNANoCORS: true, RequestHeaders: SS("x-a", "x-ab", "x-abc")},
	{Origins: SS("https://*.com", "http://*.example.com"), TolPSL: true, RequestHeaders: SS("*")},
}

func fuzzVals(b []byte) ([]Val, bool) {
	// first byte selects presence: 0 absent, 1 present with zero values, else split on newlines
	if len(b) == 0 || b[0] == 0 {
		return nil, false
	}
	if b[0] == 1 {
		return nil, true
	}
	var vs []Val
	for _, p := range bytes.Split(b[1:], []byte{'\n'}) {
		vs = append(vs, V(string(p)))
	}
	return vs, true
}

func FuzzServe(f *testing.F) {
	seed := func(sel uint8, method, origin, acrm, acrh, acrpn string) {
		f.Add(sel, method, []byte(origin), []byte(acrm), []byte(acrh), []byte(acrpn))
	}
	seed(0, "OPTIONS", "xhttps://example.com", "xPUT", "xx-bar,x-foo", "xtrue")
	seed(1, "GET", "xhttps://a.example.com:8080", "\x00", "\x00", "\x00")
	seed(2, "OPTIONS", "xhttp://localhost:8080", "xGET", "x,,,,,,,,,,,,,,,,,x-foo", "xfalse")
	seed(3, "OPTIONS", "xhttps://example.com\nhttps://evil.example", "xPUT\nGET", "xx-foo\nx-bar", "xtrue\ntrue")
	seed(4, "OPTIONS", "\x01", "\x01", "\x01", "\x01")
	for _, o := range []string{"http://[::1]:9090", "http://[example.com]", "https://example.com:443", "https://example.com:08", "https://EXAMPLE.com", "https://example.com.", "null", "",
		strings.Repeat("a", 64) + "://" + strings.Repeat("a.", 126) + "b.:65535", "https://" + strings.Repeat("a", 400), "https://a.b.c.d.e.example.com", "http://[", "http://:80", "://", "a://."} {
		for sel := uint8(5); sel < 10; sel++ {
			seed(sel, "OPTIONS", "x"+o, "xPUT", "x authorization ,x-foo", "xtrue")
		}
	}
	f.Fuzz(func(t *testing.T, sel uint8, method string, origin, acrm, acrh, acrpn []byte) {
		c := fuzzServeCfgs[int(sel)%len(fuzzServeCfgs)]
		debug := int(sel)/len(fuzzServeCfgs)%2 == 1
		m, err := mkMW(c, debug)
		if err != nil {
			t.Fatalf("fixed configuration rejected: %v", err)
		}
		r := Req{Method: method}
		for _, kv := range []struct {
			k string
			b []byte
		}{{hOrigin, origin}, {hACRM, acrm}, {hACRH, acrh}, {hACRPN, acrpn}} {
			if vs, ok := fuzzVals(kv.b); ok {
				r.Hdr = append(r.Hdr, HV{kv.k, vs})
			}
		}
		resp := Do(m.Wrap, r, nil)
		model := NewOriginModel(c.Origins)
		if d := c03Invariants(c, model, debug, r, resp); d != nil {
			if d.KF != "" {
				if _, open := kfOpen("C03", d.KF); open {
					return
				}
			}
			t.Fatalf("%s", d.Msg)
		}
	})
}

// ---------------------------------------------------------------------------
// every call returns: histories of API calls on one middleware, with a watchdog

type C17Step struct {
	Op  string `json:"op"` // debug | reconf_nil | reconf_valid | reconf_junk | reconf_config | config | serve
	On  bool   `json:"on,omitempty"`
	Cfg *Cfg   `json:"cfg,omitempty"`
	Req *Req   `json:"req,omitempty"`
	// Preset: response headers an outer layer has already set when the request reaches the middleware (serve steps)
	Preset []HV `json:"preset,omitempty"`
}

// response header fields as outer layers leave them, in every legal shape: lists with empty or blank elements,
// several lines, a lone comma, the empty string, a key written straight into the map in lower case, a key with no values
var c17PresetShapes = [][]HV{
	{{"Vary", Vals("Accept-Encoding, ")}}, {{"Vary", Vals(", Accept-Encoding")}}, {{"Vary", Vals("Accept-Encoding,,Cookie")}}, {{"Vary", Vals("Accept-Encoding, , Cookie")}},
	{{"Vary", Vals(",")}}, {{"Vary", Vals(" ")}}, {{"Vary", Vals("")}}, {{"Vary", Vals("*")}}, {{"Vary", Vals("Origin")}}, {{"Vary", Vals("origin,")}},
	{{"Vary", Vals("Accept-Encoding", " , ")}}, {{"Vary", Vals("a", "b", "c", "", ",,,")}}, {{"Vary", nil}}, {{"vary", Vals("accept-encoding, ")}},
	{{"Access-Control-Allow-Origin", Vals("")}}, {{"Access-Control-Allow-Origin", Vals("*", "*")}}, {{"Access-Control-Expose-Headers", Vals(", ,")}}, {{"Access-Control-Expose-Headers", nil}},
	{{"Access-Control-Allow-Headers", Vals(",")}}, {{"Access-Control-Allow-Methods", Vals(" ")}}, {{"Access-Control-Max-Age", Vals("")}}, {{"Access-Control-Allow-Credentials", Vals("", "")}},
	{{"Vary", Vals("Accept-Encoding, ")}, {"Access-Control-Allow-Origin", Vals("")}, {"Access-Control-Expose-Headers", Vals(",")}},
}

type C17Hist struct {
	Start *Cfg      `json:"start"` // nil = zero-value middleware
	Steps []C17Step `json:"steps"`
}

func (c C17Hist) Brief() any {
	ops := make([]string, len(c.Steps))
	for i, s := range c.Steps {
		ops[i] = s.Op
		if s.Op == "debug" {
			ops[i] = fmt.Sprintf("debug(%v)", s.On)
		}
	}
	return map[string]any{"start": c.Start, "ops": ops}
}

func c17HistGen(t *rapid.T) C17Hist {
	var c C17Hist
	if chance(t, "configured", 75) {
		v := genValidCfg(t)
		c.Start = &v
	}
	cur := Cfg{Origins: SS("https://example.com")}
	if c.Start != nil {
		cur = *c.Start
	}
	for i, n := 0, intIn(t, "nsteps", 2, 12); i < n; i++ {
		switch k := uniform(t, "op", 100); {
		case k < 25:
			c.Steps = append(c.Steps, C17Step{Op: "debug", On: chance(t, "on", 60)})
		case k < 37:
			c.Steps = append(c.Steps, C17Step{Op: "reconf_nil"})
		case k < 50:
			v := genValidCfg(t)
			cur = v
			c.Steps = append(c.Steps, C17Step{Op: "reconf_valid", Cfg: &v})
		case k < 58:
			j := genJunkCfg(t)
			c.Steps = append(c.Steps, C17Step{Op: "reconf_junk", Cfg: &j})
		case k < 66:
			c.Steps = append(c.Steps, C17Step{Op: "reconf_config"})
		case k < 78:
			c.Steps = append(c.Steps, C17Step{Op: "config"})
		default:
			r := genReq(t, poolsOf(cur))
			st := C17Step{Op: "serve", Req: &r}
			if chance(t, "preset", 40) {
				st.Preset = pick(t, "presetshape", c17PresetShapes)
			}
			c.Steps = append(c.Steps, st)
		}
	}
	return c
}

var blockedStates = []string{"sync.RWMutex.Lock", "sync.RWMutex.RLock", "sync.Mutex.Lock", "semacquire", "chan receive", "chan send", "select", "sync.Cond.Wait", "sync.WaitGroup.Wait"}

// goroutineState returns the scheduler state and the stack of the goroutine
// whose stack mentions marker ("" if there is none).
func goroutineState(marker string) (state, stack string) {
	buf := make([]byte, 1<<20)
	buf = buf[:runtime.Stack(buf, true)]
	for _, g := range strings.Split(string(buf), "\n\n") {
		if !strings.Contains(g, marker) {
			continue
		}
		head, _, _ := strings.Cut(g, "\n")
		if i, j := strings.IndexByte(head, '['), strings.LastIndexByte(head, ']'); i >= 0 && j > i {
			state = head[i+1 : j]
			if k := strings.IndexByte(state, ','); k >= 0 {
				state = state[:k] // drop ", 2 minutes" and the like
			}
		}
		return state, g
	}
	return "", ""
}

// c17HistoryWorker runs the history; its name is what the watchdog looks for.
func c17HistoryWorker(c C17Hist, progress *atomic.Int32, done chan<- *Disc) {
	done <- safely(func() *Disc {
		var m *cors.Middleware
		if c.Start == nil {
			m = new(cors.Middleware)
		} else {
			var err error
			if m, err = cors.NewMiddleware(c.Start.Cors()); err != nil {
				return nil
			}
		}
		reenter := 0
		h := m.Wrap(http.HandlerFunc(func(w http.ResponseWriter, r *http.Request) {
			// a wrapped handler may call back into the middleware that wraps it (an admin endpoint behind the same
			// CORS middleware): Config, SetDebug and Reconfigure must return there, too
			m.Config()
			switch reenter++; reenter % 4 {
			case 1:
				m.SetDebug(reenter%8 == 1)
			case 2:
				if cur := m.Config(); cur != nil {
					m.Reconfigure(cur)
				}
			case 3:
				m.Reconfigure(nil)
				if c.Start != nil {
					x := c.Start.Cors()
					m.Reconfigure(&x)
				}
			}
			w.WriteHeader(200)
		}))
		for i, s := range c.Steps {
			progress.Store(int32(i))
			switch s.Op {
			case "debug":
				m.SetDebug(s.On)
			case "reconf_nil":
				m.Reconfigure(nil)
			case "reconf_valid", "reconf_junk":
				if s.Cfg != nil {
					x := s.Cfg.Cors()
					m.Reconfigure(&x)
				}
			case "reconf_config":
				m.Reconfigure(m.Config())
			case "config":
				m.Config()
			case "serve":
				if s.Req != nil {
					h.ServeHTTP(NewRec(s.Preset), s.Req.HTTP())
				}
			}
		}
		progress.Store(int32(len(c.Steps)))
		return nil
	})
}

func c17HistCheck(c C17Hist, rec *Recorder) *Disc {
	var progress atomic.Int32
	done := make(chan *Disc, 1)
	go c17HistoryWorker(c, &progress, done)
	rec.Eval(len(c.Steps))
	debugThenNil := false
	on := false
	for _, s := range c.Steps {
		if s.Op == "debug" {
			on = s.On
		}
		if s.Op == "reconf_nil" && on {
			debugThenNil = true
		}
		if s.Op == "reconf_nil" || s.Op == "reconf_valid" {
			on = on && s.Op != "reconf_nil"
		}
	}
	if debugThenNil || len(c.Steps) >= 6 {
		rec.NonTrivialHash(h64(fmt.Sprintf("%+v", c)))
	}
	deadline := time.After(3 * time.Second)
	for {
		select {
		case d := <-done:
			return d
		case <-deadline:
			// not back after 3 s (a history takes well under a millisecond): blocked for good, or just slow?
			s1, st1 := goroutineState("c17HistoryWorker")
			at := progress.Load()
			time.Sleep(300 * time.Millisecond)
			s2, _ := goroutineState("c17HistoryWorker")
			blocked := false
			for _, b := range blockedStates {
				if s1 == b && s2 == b && progress.Load() == at {
					blocked = true
				}
			}
			if !blocked {
				// still running: slow, or spinning for good? Watch it for a minute. A call on inputs of at most a few
				// MiB that is still on the CPU (running/runnable in at least 9 of 10 of >= 100 samples) at the same
				// step after 60 s does not return in any useful sense of the word.
				samples, onCPU := 0, 0
				tick := time.NewTicker(500 * time.Millisecond)
				defer tick.Stop()
				limit := time.After(60 * time.Second)
				for {
					select {
					case d := <-done:
						rec.Class("not-judged-slow")
						return d
					case <-tick.C:
						st, _ := goroutineState("c17HistoryWorker")
						samples++
						if st == "running" || st == "runnable" {
							onCPU++
						}
					case <-limit:
						if progress.Load() == at && samples >= 100 && onCPU*10 >= samples*9 {
							op := "?"
							if int(at) < len(c.Steps) {
								op = c.Steps[at].Op
							}
							_, st := goroutineState("c17HistoryWorker")
							return discf("call #%d (%s) of the history does not return: its goroutine has been on the CPU at that same call for 63 s (%d of %d samples running/runnable):\n%s", at, op, onCPU, samples, abbrev(st, 1500))
						}
						rec.Class("not-judged-slow")
						return nil
					}
				}
			}
			op := "?"
			if int(at) < len(c.Steps) {
				op = c.Steps[at].Op
			}
			return discf("call #%d (%s) of the history never returns: the only goroutine using this middleware is blocked in state [%s] (nothing else holds its lock):\n%s", at, op, s1, abbrev(st1, 1500))
		}
	}
}

func TestC17Hist(t *testing.T) {
	Prop[C17Hist]{ID: "C17", Part: "calls-return", Gen: c17HistGen, Check: c17HistCheck,
		Rule: "calls return: history of 2-12 calls on one middleware (zero value or any valid configuration): SetDebug(b), Reconfigure(nil | valid | junk | its own Config()), Config(), a request through a wrapped handler that itself calls Config(), SetDebug, Reconfigure(Config()) or Reconfigure(nil)+Reconfigure(cfg) on the middleware that wraps it; run on a worker goroutine under a watchdog. " +
			"Oracle: no panic, and the worker comes back; if it has not after 3 s, its scheduler state is read twice 300 ms apart: blocked on a lock/channel at the same call both times (no other goroutine uses that middleware) = a call that never returns; still running = watched for another 60 s: on the CPU at the same call in >= 90% of >= 100 samples = a call that does not return (a spin); anything else = slow, not judged. Requests are served into response header maps that outer layers have left in every legal shape (lists with empty or blank elements, several lines, a lone comma, an empty string, lower-case keys, keys without values). " +
			"non-trivial = history with Reconfigure(nil) while debug is on, or >= 6 calls; distinct by history.",
		Assumptions: []string{"a goroutine that is the only user of a middleware and sits in a lock-wait state for 3 s is deadlocked, not slow; a goroutine that is still on the CPU at the same library call after 63 s, on inputs of at most a few MiB, is spinning, not slow"}}.Run(t)
}
