package harness

import (
	"fmt"
	"net/http"
	"testing"

	"github.com/jub0bs/cors"
	"pgregory.net/rapid"
)

// C12: behaviour is immune to caller-side mutation and to request history.

type C12Step struct {
	Op   string `json:"op"` // create | reconfigure | mutate_reconfigure | scribble_input | scribble_output | evil | burst | scribble_retained
	Idx  int    `json:"mw"`
	Cfg  *Cfg   `json:"cfg,omitempty"`
	Reqs []Req  `json:"reqs,omitempty"`
}

type C12Case struct {
	Steps []C12Step `json:"steps"`
}

func (c C12Case) Brief() any {
	var out []any
	for _, s := range c.Steps {
		rs := make([]string, len(s.Reqs))
		for i, r := range s.Reqs {
			rs[i] = r.Brief()
		}
		out = append(out, map[string]any{"op": s.Op, "mw": s.Idx, "cfg": s.Cfg, "reqs": rs})
	}
	return out
}

// Marks the adversary writes. They are typed: what is written over an origin is
// a well-formed origin no configuration lists, over a method a valid method
// name, over a header name a valid header name, so that a defect which makes
// the middleware trust a scribbled-over slot (a memo, a set sharing the
// caller's backing array) shows as a changed answer to a probe that mentions
// the mark (see c12Suite).
const (
	evilMark   = "EVIL"
	evilOrigin = "https://evil.example"
	evilMethod = "EVILMETHOD"
	evilHeader = "x-evil"
)

func markFor(key string) string {
	switch http.CanonicalHeaderKey(key) {
	case hOrigin, hACAO:
		return evilOrigin
	case hACRM, hACAM:
		return evilMethod
	case hACRH, hACAH, hACEH:
		return evilHeader
	}
	return evilMark
}

// c12Suite is the probe suite of a configuration plus requests that mention the marks.
func c12Suite(c Cfg) []Req {
	suite := Suite(c)
	ok := "https://any.example"
	if allowed, _ := originPools(c); len(allowed) > 0 {
		ok = allowed[0]
	}
	// origins that other live middlewares are likely to allow: a verdict must not travel between middlewares
	for _, o := range []string{"https://example.com", "https://sub.example.com", "https://example.com:8443", "http://localhost:8080", "http://example.com", "https://a.example.org.", "http://192.168.1.1:8080", "https://foo.bar.example.net"} {
		suite = append(suite, Actual("GET", o), Preflight(o, "PUT"))
	}
	// method spellings and header names that other live middlewares are likely to list
	for _, m := range []string{"get", "pOst", "Head", "post", "put", "Put", "delete", "patch", "PURGE", "options", "oPtIoNs", "Foo", "QUERY"} {
		suite = append(suite, Preflight(ok, m))
	}
	for _, h := range []string{"x-foo", "x-bar", "x-a", "content-type", "authorization", "foo", "x_under", "accept", "cache-control"} {
		suite = append(suite, Preflight(ok, "GET", h))
	}
	return append(suite,
		Actual("GET", evilOrigin), Actual("PUT", evilOrigin), Actual("OPTIONS", evilOrigin),
		Preflight(evilOrigin, "GET"), Preflight(evilOrigin, "PUT", evilHeader), Preflight(evilOrigin, evilMethod),
		Preflight(ok, evilMethod), Preflight(ok, "GET", evilHeader), Preflight(ok, evilMethod, evilHeader),
		Actual("GET", evilMark), Preflight(evilMark, "GET"), Preflight(ok, evilMark), Preflight(ok, "GET", "evil"),
	)
}

// roomy copies a string list into a slice with spare capacity, as a caller
// who built the list with append might pass it.
func roomy(in []string) []string {
	if in == nil {
		return nil
	}
	out := make([]string, len(in), len(in)+4)
	copy(out, in)
	return out
}

func roomyConfig(c Cfg) *cors.Config {
	cfg := c.Cors()
	cfg.Origins, cfg.Methods, cfg.RequestHeaders, cfg.ResponseHeaders = roomy(cfg.Origins), roomy(cfg.Methods), roomy(cfg.RequestHeaders), roomy(cfg.ResponseHeaders)
	return &cfg
}

// scribble overwrites every element of s, including its spare capacity.
func scribble(s []string) { scribbleWith(s, evilMark) }

func scribbleWith(s []string, mark string) {
	full := s[:cap(s)]
	for i := range full {
		full[i] = mark
	}
}

func scribbleConfig(c *cors.Config) {
	if c == nil {
		return
	}
	scribbleWith(c.Origins, evilOrigin)
	scribbleWith(c.Methods, evilMethod)
	scribbleWith(c.RequestHeaders, "X-Evil")
	scribbleWith(c.ResponseHeaders, "X-Evil")
	c.Origins = append(c.Origins, evilOrigin)
	c.Methods = append(c.Methods, evilMethod)
	c.RequestHeaders = append(c.RequestHeaders, "X-Evil")
	c.ResponseHeaders = append(c.ResponseHeaders, "X-Evil")
	c.Credentialed = !c.Credentialed
	c.MaxAgeInSeconds = 77
}

type c12MW struct {
	m        *cors.Middleware
	srv      *Server        // ONE wrapped handler per middleware, kept across reconfigurations, shared by probes, bursts and evil requests
	passed   []*cors.Config // configurations handed to NewMiddleware/Reconfigure
	fetched  []*cors.Config // results of Config()
	suite    []Req
	baseline []string
	cfgJSON  string
	cfg      Cfg
}

type c12World struct {
	mws      [3]*c12MW
	retained [][]string // slices an evil handler kept hold of
}

func (w *c12World) evilHandler() http.Handler {
	return http.HandlerFunc(func(rw http.ResponseWriter, r *http.Request) {
		for k, vs := range r.Header {
			w.retained = append(w.retained, vs)
			scribbleWith(vs, markFor(k))
			r.Header[k] = append(vs[:cap(vs)], evilMark)
		}
		h := rw.Header()
		for k, vs := range h {
			w.retained = append(w.retained, vs)
			scribbleWith(vs, markFor(k))
			h[k] = append(vs[:cap(vs)], evilMark)
		}
		h.Set("X-Evil", evilMark)
		r.Header.Del("Origin")
		r.Method = evilMark
		rw.WriteHeader(200)
	})
}

func (w *c12World) invariant(step int, what string, rec *Recorder) *Disc {
	for i, mw := range w.mws {
		if mw == nil {
			continue
		}
		// replay the suite in a different order each time: answers must not depend on request history
		n := len(mw.suite)
		got := make([]string, n)
		rot := (step*37 + i*11) % max(n, 1)
		for k := 0; k < n; k++ {
			idx := (k + rot) % n
			if step%2 == 1 {
				idx = n - 1 - idx
			}
			got[idx] = Do(mw.srv.Wrap, mw.suite[idx], nil).Sig()
		}
		rec.Eval(len(got))
		if j := firstDiff(mw.baseline, got); j >= 0 {
			return discf("after step %d (%s): middleware %d (cfg %+v) now answers {%s} with %s; before any adversarial activity it answered %s", step, what, i, mw.cfg, mw.suite[j].Brief(), abbrev(got[j], 400), abbrev(mw.baseline[j], 400))
		}
		if cj := cfgJSON(mw.m.Config()); cj != mw.cfgJSON {
			return discf("after step %d (%s): Config() of middleware %d changed from %s to %s", step, what, i, mw.cfgJSON, cj)
		}
	}
	return nil
}

func c12Gen(t *rapid.T) C12Case {
	var c C12Case
	cfg0 := genValidCfg(t)
	c.Steps = append(c.Steps, C12Step{Op: "create", Idx: 0, Cfg: &cfg0})
	live := map[int]Cfg{0: cfg0}
	n := intIn(t, "nsteps", 2, 14)
	for i := 0; i < n; i++ {
		idx := uniform(t, "mw", 3)
		cur, ok := live[idx]
		switch k := uniform(t, "op", 100); {
		case !ok || k < 12:
			cfg := genValidCfg(t)
			op := "create"
			if ok && chance(t, "reconf", 60) {
				op = "reconfigure"
			}
			c.Steps = append(c.Steps, C12Step{Op: op, Idx: idx, Cfg: &cfg})
			live[idx] = cfg
		case k < 22:
			// the caller edits the Config it passed earlier IN PLACE (same backing arrays) and reconfigures with it
			x := cur
			x.Origins = append([]Str{}, cur.Origins...)
			if len(x.Origins) > 0 && !x.AllowAll() {
				x.Origins[uniform(t, "editpos", len(x.Origins))] = Str(pick(t, "neworigin", []string{"https://edited.example", "https://*.edited.example:*", "http://localhost:7777", "https://example.com:8443", "http://127.0.0.1:7777"}))
			}
			if len(x.Methods) > 0 && chance(t, "editmethod", 50) {
				x.Methods = append([]Str{}, cur.Methods...)
				x.Methods[uniform(t, "editmpos", len(x.Methods))] = "EDITED"
			}
			if len(x.RequestHeaders) > 0 && chance(t, "edithdr", 50) {
				x.RequestHeaders = append([]Str{}, cur.RequestHeaders...)
				x.RequestHeaders[uniform(t, "edithpos", len(x.RequestHeaders))] = "X-Edited"
			}
			c.Steps = append(c.Steps, C12Step{Op: "mutate_reconfigure", Idx: idx, Cfg: &x})
			live[idx] = x
		case k < 32:
			c.Steps = append(c.Steps, C12Step{Op: "scribble_input", Idx: idx})
		case k < 48:
			c.Steps = append(c.Steps, C12Step{Op: "scribble_output", Idx: idx})
		case k < 80:
			p := poolsOf(cur)
			var reqs []Req
			for j, m := 0, intIn(t, "nevil", 1, 4); j < m; j++ {
				r := genReq(t, p)
				if chance(t, "plainactual", 50) {
					r = Actual(pick(t, "am", []string{"GET", "OPTIONS", "POST"}), pick(t, "ao", p.allowed))
					if chance(t, "noncors", 30) {
						r = Req{Method: r.Method}
					}
				}
				reqs = append(reqs, r)
			}
			c.Steps = append(c.Steps, C12Step{Op: "evil", Idx: idx, Reqs: reqs})
		case k < 90:
			p := poolsOf(cur)
			var reqs []Req
			for j, m := 0, intIn(t, "nburst", 1, 6); j < m; j++ {
				reqs = append(reqs, genReq(t, p))
			}
			c.Steps = append(c.Steps, C12Step{Op: "burst", Idx: idx, Reqs: reqs})
		default:
			c.Steps = append(c.Steps, C12Step{Op: "scribble_retained", Idx: idx})
		}
	}
	return c
}

func c12Check(c C12Case, rec *Recorder) *Disc {
	w := &c12World{}
	adversarial, nontrivial := false, false
	for i, s := range c.Steps {
		if s.Idx < 0 || s.Idx > 2 {
			continue
		}
		mw := w.mws[s.Idx]
		switch s.Op {
		case "create", "reconfigure":
			if s.Cfg == nil {
				continue
			}
			passed := roomyConfig(*s.Cfg)
			handedOver := cfgJSON(passed)
			var m *cors.Middleware
			var earlySrv *Server
			if s.Op == "reconfigure" && mw != nil {
				if err := mw.m.Reconfigure(passed); err != nil {
					rec.Class("rejected-config")
					continue
				}
				m = mw.m
			} else if i%3 == 2 {
				// a zero-value middleware whose handler is wrapped BEFORE the configuration arrives
				m = new(cors.Middleware)
				earlySrv = NewServer(m.Wrap)
				if err := m.Reconfigure(passed); err != nil {
					rec.Class("rejected-config")
					continue
				}
				rec.Class("created-by-wrap-then-reconfigure")
			} else {
				var err error
				// NewMiddleware takes the Config by value but the slices inside are shared with the caller
				m, err = cors.NewMiddleware(*passed)
				if err != nil {
					rec.Class("rejected-config")
					continue
				}
			}
			if now := cfgJSON(passed); now != handedOver {
				return discf("step %d (%s): the library modified the Config value it was given: %s before the call, %s after", i, s.Op, handedOver, now)
			}
			n := &c12MW{m: m, cfg: *s.Cfg, suite: c12Suite(*s.Cfg)}
			if mw != nil && s.Op == "reconfigure" {
				n.passed, n.fetched, n.srv = mw.passed, mw.fetched, mw.srv
			} else if earlySrv != nil {
				n.srv = earlySrv
			} else {
				n.srv = NewServer(m.Wrap)
			}
			n.passed = append(n.passed, passed)
			n.baseline = SuiteSig(m.Wrap, n.suite)
			n.cfgJSON = cfgJSON(m.Config())
			w.mws[s.Idx] = n
		case "mutate_reconfigure":
			if mw == nil || s.Cfg == nil || len(mw.passed) == 0 {
				continue
			}
			// write the new entries into the very Config value handed over last time, reusing its backing arrays
			p := mw.passed[len(mw.passed)-1]
			inPlace := func(dst *[]string, src []string) {
				if src == nil {
					*dst = nil
					return
				}
				if cap(*dst) >= len(src) {
					*dst = (*dst)[:len(src)]
				} else {
					*dst = make([]string, len(src), len(src)+4)
				}
				copy(*dst, src)
			}
			want := s.Cfg.Cors()
			inPlace(&p.Origins, want.Origins)
			inPlace(&p.Methods, want.Methods)
			inPlace(&p.RequestHeaders, want.RequestHeaders)
			inPlace(&p.ResponseHeaders, want.ResponseHeaders)
			p.Credentialed, p.MaxAgeInSeconds, p.ExtraConfig = want.Credentialed, want.MaxAgeInSeconds, want.ExtraConfig
			if err := mw.m.Reconfigure(p); err != nil {
				rec.Class("rejected-config")
				// a rejected Reconfigure leaves the old behaviour; the in-place edit must not have changed it either
				if d := w.invariant(i, s.Op+"(rejected)", rec); d != nil {
					return d
				}
				continue
			}
			// from now on the middleware must behave exactly like a fresh one built from the edited configuration
			fresh, err := cors.NewMiddleware(s.Cfg.Cors())
			if err != nil {
				return discf("step %d: edited configuration %+v accepted by Reconfigure but rejected by NewMiddleware: %v", i, *s.Cfg, err)
			}
			n := &c12MW{m: mw.m, cfg: *s.Cfg, suite: c12Suite(*s.Cfg), passed: mw.passed, fetched: mw.fetched, srv: mw.srv}
			n.baseline = SuiteSig(fresh.Wrap, n.suite)
			n.cfgJSON = cfgJSON(fresh.Config())
			w.mws[s.Idx] = n
			adversarial = true
		case "scribble_input":
			if mw == nil {
				continue
			}
			for _, p := range mw.passed {
				scribbleConfig(p)
			}
			adversarial = true
		case "scribble_output":
			if mw == nil {
				continue
			}
			mw.fetched = append(mw.fetched, mw.m.Config())
			for _, f := range mw.fetched {
				scribbleConfig(f)
			}
			adversarial = true
		case "evil":
			if mw == nil {
				continue
			}
			h := mw.srv.Wrap(w.evilHandler())
			for _, r := range s.Reqs {
				h.ServeHTTP(NewRec(nil), r.HTTP())
				rec.Eval(1)
				if !isPreflight(r) {
					adversarial = true
				}
			}
		case "burst":
			if mw == nil {
				continue
			}
			if i%2 == 1 {
				// the whole burst is answered into ONE header map (a reused recorder): every response finds what the
				// previous one and the outer layer left behind, and must be what a fresh middleware answers when
				// given a copy of those headers as pre-set response headers
				chain := NewRec(nil)
				fresh, err := cors.NewMiddleware(mw.cfg.Cors())
				if err != nil {
					continue
				}
				for _, r := range s.Reqs {
					var pre []HV
					for k, v := range chain.H {
						pre = append(pre, HV{Key: k, Vals: Vals(v...)})
					}
					got := DoOn(chain, mw.srv.Wrap, r, nil).Sig()
					want := Do(fresh.Wrap, r, pre).Sig()
					rec.Eval(2)
					if got != want {
						return discf("step %d (burst into one reused header map): middleware %d (cfg %+v) answers {%s} with %s; a fresh middleware given a copy of the same pre-set headers answers %s", i, s.Idx, mw.cfg, r.Brief(), abbrev(got, 500), abbrev(want, 500))
					}
				}
				rec.Class("burst-into-one-header-map")
				break
			}
			for _, r := range s.Reqs {
				Do(mw.srv.Wrap, r, nil)
				rec.Eval(1)
			}
		case "scribble_retained":
			for _, s := range w.retained {
				scribble(s)
			}
		}
		rec.Class("op:" + s.Op)
		if adversarial {
			nontrivial = true
		}
		if d := w.invariant(i, s.Op, rec); d != nil {
			return d
		}
	}
	if nontrivial {
		rec.NonTrivialHash(h64(fmt.Sprintf("%+v", c)))
	}
	return nil
}

func TestC12(t *testing.T) {
	Prop[C12Case]{ID: "C12", Gen: c12Gen, Check: c12Check,
		Rule: "generator: history of 3-15 steps over up to 3 live middlewares: create (NewMiddleware, or at every third step a zero value whose handler is wrapped first and configured afterwards) / reconfigure from a Config whose slices have spare capacity; edit the previously passed Config IN PLACE (same backing arrays) and Reconfigure with it, after which the middleware must behave like a fresh one built from the edited configuration; scribble over every slice (and spare capacity) of every Config ever passed in; fetch Config() and scribble over every result ever fetched; " +
			"evil requests (any kind) through a wrapped handler that overwrites in place, re-slices to capacity and appends to every value slice reachable from r.Header and w.Header(), deletes/sets keys and keeps the slices; scribble over the retained slices later; benign request bursts. " +
			"Every middleware serves probes, bursts and evil requests through ONE wrapped handler kept across its reconfigurations; the baseline is recorded through freshly wrapped handlers. The adversary's marks are typed (a well-formed unlisted origin over origins, a method name over methods, a header name over header names) and the suite contains probes mentioning them. Invariant after every step, for every live middleware: answers to its ~200-request suite (fresh requests, benign handler, replayed in a different rotation/direction at every step so that history dependence shows) and Config() equal the baseline recorded right after creation. " +
			"non-trivial = history containing a scribble or an evil non-preflight request followed by a probe; distinct by history.",
		Assumptions: []string{"slices reachable only from preflight responses are not attacked (the wrapped handler never runs there; installing shared constants on that path is the documented design)",
			"package-level state corrupted by a defect persists for the rest of the process, so after a first failure shrinking may report the unshrunk history"}}.Run(t)
}
