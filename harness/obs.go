package harness

import (
	"fmt"
	"net/http"
	"sort"
	"strings"
)

// Rec is a light ResponseWriter. Like net/http's server (and
// httptest.ResponseRecorder) it freezes the header map at the first
// WriteHeader/Write: what the client sees is Sent, not later edits.
type Rec struct {
	H        http.Header
	Status   int // 0 = WriteHeader never called (client would see 200)
	Sent     http.Header
	Body     []byte
	NHeader  int
	NWriteH  int
	NWrite   int
	OnHeader func(n int) // called on each Header() call with its 1-based index
	OnWriteH func(n int)
	OnWrite  func(n int)
}

func NewRec(preset []HV) *Rec {
	r := &Rec{H: make(http.Header)}
	for _, kv := range preset {
		r.H[kv.Key] = Strs(kv.Vals)
		if kv.Vals == nil {
			r.H[kv.Key] = nil
		}
	}
	return r
}

func (r *Rec) Header() http.Header {
	r.NHeader++
	if r.OnHeader != nil {
		r.OnHeader(r.NHeader)
	}
	return r.H
}

func (r *Rec) WriteHeader(code int) {
	r.NWriteH++
	if r.OnWriteH != nil {
		r.OnWriteH(r.NWriteH)
	}
	// like net/http (and httptest.ResponseRecorder), refuse codes that are no status codes at all
	if code < 100 || code > 999 {
		panic(fmt.Sprintf("invalid WriteHeader code %v", code))
	}
	if r.Status != 0 {
		return
	}
	// net/http ignores 1xx here for the purpose of "header written"; the
	// middleware never sends 1xx itself, handlers in our scripts may.
	if code >= 100 && code <= 199 && code != 101 {
		return
	}
	r.Status = code
	r.Sent = cloneHeader(r.H)
}

func (r *Rec) Write(p []byte) (int, error) {
	r.NWrite++
	if r.OnWrite != nil {
		r.OnWrite(r.NWrite)
	}
	if r.Status == 0 {
		r.Status = 200
		r.Sent = cloneHeader(r.H)
	}
	r.Body = append(r.Body, p...)
	return len(p), nil
}

// Final returns the headers the client receives.
func (r *Rec) Final() http.Header {
	if r.Sent != nil {
		return r.Sent
	}
	return r.H
}

func (r *Rec) FinalStatus() int {
	if r.Status == 0 {
		return 200
	}
	return r.Status
}

func cloneHeader(h http.Header) http.Header {
	out := make(http.Header, len(h))
	for k, v := range h {
		if v == nil {
			out[k] = nil
			continue
		}
		out[k] = append([]string{}, v...)
	}
	return out
}

// Resp is the canonical, comparable form of a response.
type Resp struct {
	Status  int                 `json:"status"`
	Hdr     map[string][]string `json:"hdr"`
	Body    string              `json:"body,omitempty"`
	Called  int                 `json:"called"`
	SameReq bool                `json:"same_req,omitempty"`
	SameW   bool                `json:"same_w,omitempty"`
	Entry   map[string][]string `json:"entry,omitempty"`
	ReqHdr  map[string][]string `json:"-"`
	ReqLine string              `json:"-"`
}

func (r Resp) Sig() string {
	var b strings.Builder
	fmt.Fprintf(&b, "%d|called=%d|", r.Status, r.Called)
	b.WriteString(hdrSig(r.Hdr))
	if r.Body != "" {
		fmt.Fprintf(&b, "|body=%q", r.Body)
	}
	return b.String()
}

func hdrSig(h map[string][]string) string {
	keys := make([]string, 0, len(h))
	for k := range h {
		keys = append(keys, k)
	}
	sort.Strings(keys)
	var b strings.Builder
	for _, k := range keys {
		fmt.Fprintf(&b, "%s=%q;", k, h[k])
	}
	return b.String()
}

// okHandler is the constant inner handler used by most properties: it
// records that it ran and writes a fixed response without touching headers.
type spy struct {
	called  int
	sameReq bool
	sameW   bool
	entry   http.Header
	reqHdr  http.Header // the request's header map as the inner handler finds it
	reqLine string      // method, target, protocol and host as the inner handler finds them
	wantReq *http.Request
	wantW   http.ResponseWriter
	script  func(w http.ResponseWriter, r *http.Request)
}

func (s *spy) ServeHTTP(w http.ResponseWriter, r *http.Request) {
	s.called++
	s.sameReq = r == s.wantReq
	s.sameW = w == s.wantW
	if rec, ok := w.(*Rec); ok {
		s.entry = cloneHeader(rec.H)
	}
	s.reqHdr = cloneHeader(r.Header)
	s.reqLine = reqLine(r)
	if s.script != nil {
		s.script(w, r)
		return
	}
	w.WriteHeader(299)
}

// Do runs one request through h-wrapped-by-m and returns the response.
func Do(wrap func(http.Handler) http.Handler, req Req, preset []HV) Resp {
	return DoScript(wrap, req, preset, nil)
}

func DoScript(wrap func(http.Handler) http.Handler, req Req, preset []HV, script func(http.ResponseWriter, *http.Request)) Resp {
	return DoOn(NewRec(preset), wrap, req, script)
}

// DoOn serves the request into an existing recorder: its header map - with whatever an earlier response and the
// outer layer left in it - is what the middleware finds as "response headers already present". Status, body and
// counters start afresh.
func DoOn(rec *Rec, wrap func(http.Handler) http.Handler, req Req, script func(http.ResponseWriter, *http.Request)) Resp {
	rec.Status, rec.Sent, rec.Body, rec.NHeader, rec.NWriteH, rec.NWrite = 0, nil, nil, 0, 0, 0
	hr := req.HTTP()
	sp := &spy{wantReq: hr, wantW: rec, script: script}
	wrap(sp).ServeHTTP(rec, hr)
	hdr := rec.Final()
	if rec.Sent == nil {
		hdr = cloneHeader(rec.H)
	}
	// An outer layer (a compression wrapper adding "Vary: Accept-Encoding", a logger adding a trace id ...) adds
	// one more value to every response header field after the wrapped handler has returned. Appending to a slice
	// never disturbs anyone else - unless the library installed a slice whose spare capacity is shared with
	// something it still uses, in which case later responses show the mark.
	for k, v := range rec.H {
		rec.H[k] = append(v, outerMark)
	}
	return Resp{
		Status:  rec.FinalStatus(),
		Hdr:     hdr,
		Body:    string(rec.Body),
		Called:  sp.called,
		SameReq: sp.sameReq,
		SameW:   sp.sameW,
		Entry:   sp.entry,
		ReqHdr:  sp.reqHdr,
		ReqLine: sp.reqLine,
	}
}

// outerMark is what the simulated outer layer appends to every response header field once a request is over.
const outerMark = "Outer-Layer-Mark"

func reqLine(r *http.Request) string {
	return fmt.Sprintf("%s %s %s host=%s tls=%v", r.Method, r.RequestURI, r.Proto, r.Host, r.TLS != nil)
}

// Server keeps the handler returned by ONE Wrap call and serves every request
// through it, like a real server does (Do/DoScript with m.Wrap call Wrap anew
// for every request, which would hide state kept per wrapped handler).
// Server.Wrap has the signature Do expects. The inner handler for a request
// is picked when that request enters the wrapped handler, so a request served
// from inside another request's handler (see C11) is dispatched correctly.
// Not for concurrent use.
type Server struct {
	h    http.Handler
	next http.Handler
}

// oneWrap wraps once and returns a function with Wrap's signature that serves
// every request through that one wrapped handler.
func oneWrap(wrap func(http.Handler) http.Handler) func(http.Handler) http.Handler {
	return NewServer(wrap).Wrap
}

func NewServer(wrap func(http.Handler) http.Handler) *Server {
	s := &Server{}
	s.h = wrap(http.HandlerFunc(func(w http.ResponseWriter, r *http.Request) {
		inner := s.next
		inner.ServeHTTP(w, r)
	}))
	return s
}

func (s *Server) Wrap(inner http.Handler) http.Handler {
	return http.HandlerFunc(func(w http.ResponseWriter, r *http.Request) {
		s.next = inner
		s.h.ServeHTTP(w, r)
	})
}

// SuiteSig runs all requests and returns the per-request signatures.
func SuiteSig(wrap func(http.Handler) http.Handler, suite []Req) []string {
	out := make([]string, len(suite))
	for i, r := range suite {
		out[i] = Do(wrap, r, nil).Sig()
	}
	return out
}

func firstDiff(a, b []string) int {
	n := len(a)
	if len(b) < n {
		n = len(b)
	}
	for i := 0; i < n; i++ {
		if a[i] != b[i] {
			return i
		}
	}
	if len(a) != len(b) {
		return n
	}
	return -1
}
