package harness

import (
	"fmt"
	"strings"
	"sync"
	"sync/atomic"
	"testing"

	"pgregory.net/rapid"
)

// C02: a Fetch-compliant browser's verdict equals what the configuration
// means.

type C02Case struct {
	Cfg     Cfg      `json:"cfg"`
	Intents []Intent `json:"intents"`
}

const c02Rule = "generator: valid configuration (every switch, allow-all/discrete/wildcard origins, Methods incl. * and lower-case/normalisable spellings, RequestHeaders incl. * and Authorization in several cases/orders) " +
	"x 6-20 browser intents derived from the configuration (allowed origin 70% / near-miss; safelisted, listed, spelling-variant, unlisted method; random subset of {listed names, authorization, x-unlisted, x-foo}; credentials include/omit; private-network target) " +
	"x one of 6 sets of headers a browser sends of its own accord (none; Fetch Metadata with Sec-Fetch-Site cross-site or same-site, User-Agent, Accept*, Referer, client hints, DNT/GPC; a client without Fetch Metadata) x ACRH perturbation in {none, SP after comma, OWS around, one element per line, empty elements, two padded lines, empty elements with one OWS byte per side (SP / HTAB variants)}; each intent is run with debug off and on. evaluations = browser runs compared with Permits(cfg,intent). " +
	"non-trivial = intent needs a preflight and its origin is allowed (verdict decided by the method/header/credentials/PNA step), or the verdict is success; distinct by (configuration, intent)."

func genIntent(t *rapid.T, c Cfg, p reqPools) Intent {
	var in Intent
	if chance(t, "okorigin", 72) || len(p.near) == 0 {
		in.Origin = pick(t, "allowed", p.allowed)
	} else {
		in.Origin = pick(t, "near", p.near)
	}
	switch k := uniform(t, "methodkind", 100); {
	case k < 22:
		in.Method = pick(t, "safel", []string{"GET", "HEAD", "POST", "get", "Post"})
	case k < 60 && len(p.methods) > 0:
		m := pick(t, "listed", p.methods)
		switch uniform(t, "spelling", 4) {
		case 1:
			m = lower(m)
		case 2:
			m = strings.ToUpper(m)
		}
		in.Method = m
	case k < 75:
		in.Method = pick(t, "common", []string{"PUT", "DELETE", "PATCH", "OPTIONS", "put", "delete", "patch", "Put"})
	default:
		in.Method = pick(t, "unl", []string{"UNLISTED", "PURGE", "purge", "QUERY", "foo", "Foo", "FOO"})
	}
	universe := append(append([]string{}, p.names...), "authorization", "x-unlisted", "x-foo", "content-type")
	universe = dedupe(universe)
	pct := pick(t, "hdrdensity", []int{0, 0, 30, 60})
	for _, n := range universe {
		if chance(t, "hdr", pct) {
			if chance(t, "hdrcase", 30) {
				n = strings.ToUpper(n[:1]) + n[1:]
			}
			in.Headers = append(in.Headers, n)
		}
	}
	credPct := 25
	if c.Credentialed {
		credPct = 55
	}
	in.Creds = chance(t, "creds", credPct)
	pnaPct := 15
	if c.PNA || c.PNANoCORS {
		pnaPct = 45
	}
	in.PNA = chance(t, "pna", pnaPct)
	in.Perturb = uniform(t, "perturb", 8)
	in.HostLikeOrigin = chance(t, "hostlikeorigin", 12)
	in.Ambient = uniform(t, "ambient", nAmbient)
	return in
}

func c02Gen(t *rapid.T) C02Case {
	c := C02Case{Cfg: genValidCfg(t)}
	p := poolsOf(c.Cfg)
	n := intIn(t, "nintents", 6, 20)
	for i := 0; i < n; i++ {
		c.Intents = append(c.Intents, genIntent(t, c.Cfg, p))
	}
	return c
}

func c02CheckIntents(c Cfg, intents []Intent, rec *Recorder, cfgKey string) *Disc {
	m0, err := mkMW(c, false)
	if err != nil {
		rec.Class("rejected-config")
		return nil
	}
	m1, _ := mkMW(c, true)
	w0, w1 := oneWrap(m0.Wrap), oneWrap(m1.Wrap) // all intents of a case through one wrapped handler per middleware
	m0.Config()                                  // an observer: calling it on one of the two middlewares changes nothing
	for _, in := range intents {
		want, why := Permits(c, in)
		got0, tr0 := Browser(w0, in)
		got1, tr1 := Browser(w1, in)
		rec.Eval(2)
		if got0 != want || got1 != want {
			tr, dbg := tr0, false
			if got0 == want {
				tr, dbg = tr1, true
			}
			detail := ""
			if tr.PreflightResp != nil {
				detail += fmt.Sprintf(" preflight-> %s", abbrev(tr.PreflightResp.Sig(), 400))
			}
			if tr.ActualResp != nil {
				detail += fmt.Sprintf(" actual-> %s", abbrev(tr.ActualResp.Sig(), 300))
			}
			return discf("cfg %+v intent %+v: configuration means permitted=%v (%s) but browser verdict debug-off=%v debug-on=%v (failing side debug=%v, browser stopped at %q)%s",
				c, in, want, why, got0, got1, dbg, tr.FailedAt, detail)
		}
		if rec != nil {
			rec.Class("decided-by:" + why)
			if want {
				rec.Class("verdict-success")
			}
			if (tr0.Preflight && why != "origin") || want {
				rec.NonTrivialHash(h64(cfgKey, fmt.Sprintf("%+v", in)))
			}
		}
	}
	return nil
}

func c02Check(c C02Case, rec *Recorder) *Disc {
	return c02CheckIntents(c.Cfg, c.Intents, rec, fmt.Sprintf("%+v", c.Cfg))
}

func TestC02(t *testing.T) {
	Prop[C02Case]{ID: "C02", Gen: c02Gen, Check: c02Check, Rule: c02Rule,
		Assumptions: []string{"browser model = transcription of Fetch CORS-preflight fetch / CORS check / PNA ACAPN check; use-CORS-preflight flag unset",
			"Permits() = reading of the property statement and Config documentation"}}.Run(t)
}

// ---------------------------------------------------------------------------
// Exhaustive product over a fixed universe (thorough tier).

func TestC02Exhaustive(t *testing.T) {
	rec := NewRecorder("C02", "exhaustive")
	rule := "exhaustive product: Credentialed{f,t} x PNA mode{none,PNA,no-cors-only} x 4 origin lists x 9 method lists x 10 request-header lists (invalid combinations skipped) " +
		"x intents {4 origins x 10 methods x 16 header subsets of {authorization,x-foo,x-bar,content-type} x credentials{omit,include} x PNA{no,yes}} x debug{off,on} x 4 ACRH perturbations; " +
		"non-trivial as in the rapid part"
	defer func() { rec.Flush(rule, nil, 0) }()
	originLists := [][]string{{"*"}, {"https://example.com"}, {"https://*.example.com:*"}, {"https://example.com", "http://localhost:*"}}
	methodLists := [][]string{nil, {"*"}, {"PUT"}, {"put"}, {"patch"}, {"PATCH", "DELETE"}, {"GET", "Foo"}, {"*", "PUT"}, {"delete", "OPTIONS"}}
	hdrLists := [][]string{nil, {"*"}, {"Authorization"}, {"*", "Authorization"}, {"authorization", "*"}, {"X-Foo"}, {"x-foo", "X-Bar"},
		{"X-Bar", "Authorization", "X-Foo"}, {"Content-Type", "x-foo"}, {"*", "X-Foo"}}
	iOrigins := []string{"https://example.com", "https://a.example.com:8080", "http://localhost:3000", "https://xexample.com"}
	iMethods := []string{"GET", "POST", "PUT", "put", "PATCH", "patch", "DELETE", "Foo", "FOO", "OPTIONS"}
	hu := []string{"authorization", "x-foo", "x-bar", "content-type"}
	var intents []Intent
	for _, o := range iOrigins {
		for _, m := range iMethods {
			for mask := 0; mask < 16; mask++ {
				var hs []string
				for b := 0; b < 4; b++ {
					if mask&(1<<b) != 0 {
						hs = append(hs, hu[b])
					}
				}
				for _, cr := range []bool{false, true} {
					for _, pn := range []bool{false, true} {
						for _, pt := range []int{0, 3, 5, 6} {
							if len(hs) == 0 && pt != 0 {
								continue
							}
							intents = append(intents, Intent{Origin: o, Method: m, Headers: hs, Creds: cr, PNA: pn, Perturb: pt})
						}
					}
				}
			}
		}
	}
	var cfgs []Cfg
	for _, cred := range []bool{false, true} {
		for pna := 0; pna < 3; pna++ {
			for _, ol := range originLists {
				if ol[0] == "*" && (cred || pna != 0) {
					continue
				}
				for _, ml := range methodLists {
					for _, hl := range hdrLists {
						cfgs = append(cfgs, Cfg{Origins: SS(ol...), Credentialed: cred, PNA: pna == 1, PNANoCORS: pna == 2, Methods: SS(ml...), RequestHeaders: SS(hl...), TolInsecure: true})
					}
				}
			}
		}
	}
	var (
		wg    sync.WaitGroup
		next  int64 = -1
		mu    sync.Mutex
		first *Disc
		fcfg  Cfg
	)
	workers := envInt("VERIF_WORKERS", 16)
	for w := 0; w < workers; w++ {
		wg.Add(1)
		go func() {
			defer wg.Done()
			for {
				i := int(atomic.AddInt64(&next, 1))
				if i >= len(cfgs) {
					return
				}
				c := cfgs[i]
				if d := safely(func() *Disc { return c02CheckIntents(c, intents, rec, fmt.Sprintf("%+v", c)) }); d != nil {
					mu.Lock()
					if first == nil {
						first, fcfg = d, c
					}
					mu.Unlock()
					return
				}
			}
		}()
	}
	wg.Wait()
	rec.mu.Lock()
	rec.cases = int64(len(cfgs))
	rec.Exhaust = true
	rec.mu.Unlock()
	rec.AddSample(C02Case{Cfg: cfgs[17], Intents: intents[100:102]})
	rec.AddSample(C02Case{Cfg: cfgs[len(cfgs)-5], Intents: intents[len(intents)-3:]})
	if first != nil {
		rec.violation++
		// re-find the single failing intent for a minimal replay file
		bad := C02Case{Cfg: fcfg}
		for _, in := range intents {
			if d := c02CheckIntents(fcfg, []Intent{in}, NewRecorder("C02", "scratch"), ""); d != nil {
				bad.Intents = []Intent{in}
				first = d
				break
			}
		}
		path := writeReplay("C02", "rapid", bad, first)
		reportViolation("C02", path, first)
		t.FailNow()
	}
}
