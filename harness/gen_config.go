package harness

import (
	"fmt"
	"sort"
	"strings"

	"pgregory.net/rapid"
)

// ---------------------------------------------------------------------------
// valid configurations, by construction (never by filtering)

var secureOriginAtoms = []string{
	"https://example.com", "https://*.example.com", "https://example.com:8443", "https://*.example.com:*",
	"https://a.example.org.", "https://*.example.org.", "http://localhost", "http://localhost:8080", "http://localhost:*",
	"http://127.0.0.1", "http://127.0.0.1:9090", "http://127.0.0.1:*", "http://[::1]", "http://[::1]:9090",
	"https://foo.bar.example.net", "https://*.bar.example.net:8443", "https://xn--xample-9ua.com", "https://example.com:*",
	"https://sub.example.com", "https://xexample.com", "connector://localhost",
	// not public suffixes although they look like it: exception rules (!city.kawasaki.jp, !www.ck) and the parent of a wildcard rule
	"https://*.city.kawasaki.jp", "https://*.www.ck", "https://*.kawasaki.jp:*", "https://*.compute.amazonaws.com",
	// ports beyond 2^15 and with five digits
	"https://example.com:32768", "https://example.com:65535", "https://*.example.com:49152", "http://localhost:40000", "https://example.com:10000", "http://127.0.0.1:65534",
}

var insecureOriginAtoms = []string{
	"http://example.com", "http://*.example.com", "http://example.com:8080", "http://example.com:*", "http://*.example.com:8080",
	"http://192.168.1.1", "http://192.168.1.1:8080", "http://[2001:db8::1]", "http://[2001:db8::1]:8080", "connector://example.com",
	"http://foo.example.org.", "ws://example.com",
	// hosts that merely LOOK like localhost or a loopback address
	"http://localhost.example.com", "http://*.localhost.example.com", "ws://localhost.attacker.example:*", "http://mylocalhost:8080", "http://localhost-x.example", "http://127.0.0.1.example.com", "http://128.0.0.1",
}

// public suffixes of 1 to 6 labels, from the ICANN and the private section of the list, with and without trailing dot and port
var pslOriginAtoms = []string{"https://*.com", "https://*.co.uk:*", "https://*.github.io:8080", "https://*.com.", "https://*.org:8443",
	"https://*.pvt.k12.ma.us", "https://*.us-east-1.amazonaws.com:*", "https://*.s3.dualstack.us-east-1.amazonaws.com", "https://*.s3.dualstack.us-east-1.amazonaws.com.:8443",
	"https://*.execute-api.cn-north-1.amazonaws.com.cn", "https://*.s3-accesspoint.dualstack.cn-north-1.amazonaws.com.cn:*",
	"https://*.x.kawasaki.jp", "https://*.ck:8443"} // wildcard rules of the list (*.kawasaki.jp, *.ck)

var longMethod = "M" + strings.Repeat("ethod", 20) // 101 bytes, mixed case

var longHeader = "X-" + strings.Repeat("Long-Name-", 9) + "End" // 95 bytes, mixed case

// names around and beyond the 8-bit boundary (255, 256, 258 and 305 bytes); hugeHeader sorts before most other names
var (
	hugeHeader  = "A-" + strings.Repeat("Huge-Header-Name-", 17) + "End" // 294 bytes
	hugeHeader2 = "X-" + strings.Repeat("y", 253)                        // 255 bytes
	hugeHeader3 = "x-" + strings.Repeat("z", 254)                        // 256 bytes
	hugeMethod  = "H" + strings.Repeat("UGEMETHOD", 30)                  // 271 bytes
)

var methodAtoms = []string{longMethod, hugeMethod, "*", "GET", "POST", "HEAD", "PUT", "put", "Put", "DELETE", "delete", "PATCH", "patch", "PURGE", "OPTIONS", "options", "Foo", "QUERY", "get", "pOsT"}

var reqHdrAtoms = []string{longHeader, hugeHeader, hugeHeader2, hugeHeader3, strings.ToLower(longHeader[:64]), longHeader[:65], "*", "Authorization", "authorization", "AUTHORIZATION", "Content-Type", "content-type", "X-Foo", "x-foo", "X-Bar", "x-a", "x-ab", "Accept", "X-Requested-With", "foo", "bar", "x-abc",
	"X-H01", "x-h02", "X-H03", "x-h04", "X-H05", "x-h06", "X-H07", "x-h08", "X-H09", "x-h10", "X-H11", "x-h12", "x_under", "x.dot", "x+plus", "a^b", "x#1", "x!", "if-none-match", "range"}

var resHdrAtoms = []string{longHeader, hugeHeader, longHeader[:65], "X-Resp", "x-resp", "Content-Type", "Cache-Control", "X-Other", "ETag", "Content-Length", "x-a", "X-B", "Location"}

// genOriginFamily draws 2-6 patterns from one family of nested hosts
// (example.com, api.example.com, v2.api.example.com, x.v2.api.example.com),
// each plain or under a leading wildcard, with no port, a fixed port or any
// port, so that patterns sit above, below and beside each other in any order.
func genOriginFamily(t *rapid.T, secureOnly bool) []Str {
	hosts := []string{"example.com", "api.example.com", "v2.api.example.com", "x.v2.api.example.com", "www.example.com", "b.api.example.com"}
	n := intIn(t, "nfamily", 2, 6)
	var out []Str
	for i := 0; i < n; i++ {
		scheme := "https"
		if !secureOnly && chance(t, "famhttp", 25) {
			scheme = "http"
		}
		h := pick(t, "famhost", hosts)
		if chance(t, "famwild", 35) {
			h = "*." + h
		}
		out = append(out, Str(scheme+"://"+h+pick(t, "famport", []string{"", "", ":8443", ":*", ":8080"})))
	}
	return out
}

type cfgOpts struct {
	noAllowAll bool
	tinyOK     bool
}

// genValidCfg draws a valid configuration from one of two independent
// constructive generators: the hand-weighted one below (interacting origin
// patterns, frequent *, normalisable methods) or the labelled-atom one of
// model_validate.go (wider vocabulary: exotic method tokens, safelisted and
// odd-case header names, every valid origin atom).
func genValidCfg(t *rapid.T) Cfg {
	if chance(t, "atomcfg", 35) {
		return genValidAtomCfg(t)
	}
	return genValidCfgOpt(t, cfgOpts{tinyOK: true})
}

func genValidCfgOpt(t *rapid.T, o cfgOpts) Cfg {
	var c Cfg
	c.Credentialed = chance(t, "credentialed", 40)
	switch k := uniform(t, "pnamode", 100); {
	case k < 60:
	case k < 85:
		c.PNA = true
	default:
		c.PNANoCORS = true
	}
	c.TolInsecure = chance(t, "tolinsecure", 50)
	c.TolPSL = chance(t, "tolpsl", 35)
	pna := c.PNA || c.PNANoCORS
	secureOnly := (c.Credentialed || pna) && !c.TolInsecure

	if o.tinyOK && !secureOnly && c.TolPSL && chance(t, "tinyorigins", 35) {
		if chance(t, "longorigins", 20) {
			c.Origins = patStrings(genLongPatList(t)) // hosts up to 253 bytes + dot, 64-byte schemes, 5-digit ports
		} else if chance(t, "wideorigins", 8) {
			c.Origins = patStrings(genWidePatList(t)) // 9-260 patterns around one base host
		} else {
			c.Origins = patStrings(genPatList(t))
		}
	} else if chance(t, "familyorigins", 25) {
		c.Origins = genOriginFamily(t, secureOnly)
	} else {
		n := listLen(t, "norigins", 1, 4)
		for i := 0; i < n; i++ {
			k := uniform(t, "originkind", 100)
			switch {
			case k < 25 && !secureOnly:
				c.Origins = append(c.Origins, Str(pick(t, "insecure", insecureOriginAtoms)))
			case k < 40 && c.TolPSL:
				c.Origins = append(c.Origins, Str(pick(t, "psl", pslOriginAtoms)))
			default:
				c.Origins = append(c.Origins, Str(pick(t, "secure", secureOriginAtoms)))
			}
		}
	}
	if !o.noAllowAll && !c.Credentialed && !pna && chance(t, "allowall", 25) {
		if chance(t, "onlystar", 50) {
			c.Origins = SS("*")
		} else {
			i := uniform(t, "starpos", len(c.Origins)+1)
			c.Origins = append(c.Origins[:i:i], append(SS("*"), c.Origins[i:]...)...)
		}
	}

	nm := listLen(t, "nmethods", 0, 4)
	for i := 0; i < nm; i++ {
		c.Methods = append(c.Methods, Str(pick(t, "method", methodAtoms)))
	}
	nh := listLen(t, "nreqhdrs", 0, 5)
	for i := 0; i < nh; i++ {
		c.RequestHeaders = append(c.RequestHeaders, Str(pick(t, "reqhdr", reqHdrAtoms)))
	}
	if chance(t, "manyreqhdrs", 4) {
		// a long allow-list (counts around 32, 64, 128 and 256 entries)
		n := pick(t, "nmany", []int{31, 33, 63, 64, 65, 66, 100, 127, 129, 257})
		for i := 0; i < n; i++ {
			c.RequestHeaders = append(c.RequestHeaders, Str(fmt.Sprintf("X-Many-%03d", (i*37)%n)))
		}
	}
	if chance(t, "manymethods", 3) {
		n := pick(t, "nmanym", []int{9, 16, 17, 33, 64, 65, 130})
		for i := 0; i < n; i++ {
			c.Methods = append(c.Methods, Str(fmt.Sprintf("MANY-%03d", (i*29)%n)))
		}
	}
	nr := listLen(t, "nreshdrs", 0, 3)
	if chance(t, "manyreshdrs", 3) {
		n := pick(t, "nmanyr", []int{9, 16, 17, 33, 64, 65, 130})
		for i := 0; i < n; i++ {
			c.ResponseHeaders = append(c.ResponseHeaders, Str(fmt.Sprintf("X-Exp-%03d", (i*31)%n)))
		}
	}
	for i := 0; i < nr; i++ {
		c.ResponseHeaders = append(c.ResponseHeaders, Str(pick(t, "reshdr", resHdrAtoms)))
	}
	if !c.Credentialed && chance(t, "resstar", 15) {
		i := uniform(t, "resstarpos", len(c.ResponseHeaders)+1)
		c.ResponseHeaders = append(c.ResponseHeaders[:i:i], append(SS("*"), c.ResponseHeaders[i:]...)...)
	}
	c.MaxAge = pick(t, "maxage", []int{0, 0, -1, 1, 5, 30, 600, 86400, 86399})
	if chance(t, "maxagernd", 15) {
		c.MaxAge = rapid.IntRange(1, 86400).Draw(t, "maxagev")
	}
	c.Status = pick(t, "status", []int{0, 0, 0, 200, 204, 299, 201, 202})
	if chance(t, "statusrnd", 10) {
		c.Status = rapid.IntRange(200, 299).Draw(t, "statusv")
	}
	return c
}

// ---------------------------------------------------------------------------
// configuration-derived data

func lower(s string) string { return strings.ToLower(s) }

var browserNormalised = map[string]bool{"DELETE": true, "GET": true, "HEAD": true, "OPTIONS": true, "POST": true, "PUT": true}

// NormMethod is Fetch's method normalisation.
func NormMethod(m string) string {
	u := strings.ToUpper(m)
	if browserNormalised[u] {
		return u
	}
	return m
}

func safelistedMethod(m string) bool { return m == "GET" || m == "HEAD" || m == "POST" }

// instantiate returns an origin denoted by pattern p.
func instantiate(p Pat, sub, port string) string {
	h := p.Host
	if p.Wild {
		h = sub + "." + h
	}
	q := p.Port
	if q == "*" {
		q = port
	}
	return originString(p.Scheme, h, q)
}

// originPools returns origins that the configuration allows and near-misses
// that it does not (by the reference model).
func originPools(c Cfg) (allowed, near []string) {
	m := NewOriginModel(c.Origins)
	seenA, seenN := map[string]bool{}, map[string]bool{}
	addA := func(o string) {
		// origins beyond the documented component limits (253-byte host, 64-byte scheme) are not judged anywhere
		if !seenA[o] && hostLenOK(o) && m.DenotedBy(o) {
			seenA[o] = true
			allowed = append(allowed, o)
		}
	}
	addN := func(o string) {
		if _, ok := SplitOrigin(o); ok && hostLenOK(o) && !seenN[o] && !m.DenotedBy(o) {
			seenN[o] = true
			near = append(near, o)
		}
	}
	for _, p := range m.Pats {
		addA(instantiate(p, "sub", "8080"))
		addA(instantiate(p, "a.b", ""))
		addA(instantiate(p, "s", "8080")) // shortest possible instance, for patterns at the length limit
		if p.Port == "*" {
			addA(instantiate(p, "sub", "32768")) // any port means any port: beyond 2^15, five digits, the largest
			addA(instantiate(p, "sub", "65535"))
			addA(instantiate(p, "sub", "1"))
		}
		if !strings.HasPrefix(p.Host, "[") {
			addN(originString(p.Scheme, "x"+p.Host, p.Port))
			addN(instantiate(Pat{Scheme: p.Scheme, Wild: p.Wild, Host: "x" + p.Host, Port: p.Port}, "sub", "8080"))
		}
		addN(originString(p.Scheme+"s", p.Host, ""))
		addN(instantiate(Pat{Scheme: p.Scheme, Wild: p.Wild, Host: p.Host, Port: "81"}, "sub", "81"))
		addN(originString(p.Scheme, p.Host, ""))
		addN(originString(p.Scheme, p.Host, "65535"))
	}
	addN("https://unrelated.example")
	addN("http://unrelated.example:8080")
	return
}

func listedMethods(c Cfg) (star bool, ms []string) {
	seen := map[string]bool{}
	for _, m := range c.Methods {
		if m == "*" {
			star = true
			continue
		}
		n := NormMethod(string(m))
		if !seen[n] {
			seen[n] = true
			ms = append(ms, n)
		}
	}
	return
}

func listedReqHdrs(c Cfg) (star, auth bool, names []string) {
	seen := map[string]bool{}
	for _, h := range c.RequestHeaders {
		if h == "*" {
			star = true
			continue
		}
		l := lower(string(h))
		if l == "authorization" {
			auth = true
		}
		if !seen[l] {
			seen[l] = true
			names = append(names, l)
		}
	}
	sort.Strings(names)
	return
}

// Suite derives a deterministic request suite (~100-200 requests) from a
// configuration: non-CORS, actual and preflight requests around every aspect
// of the configuration. Two middlewares are "observationally equal" when
// they answer the whole suite identically.
func Suite(c Cfg) []Req {
	allowed, near := originPools(c)
	var origins []string
	// one allowed instance per listed pattern (two for the first ones) so that no pattern goes unprobed
	if len(allowed) > 9 {
		allowed = append(allowed[:2:2], everyOther(allowed[2:], 7)...)
	}
	if len(near) > 6 {
		near = everyOther(near, 6)
	}
	origins = append(origins, allowed...)
	origins = append(origins, near...)
	origins = append(origins, "null", "https://unrelated.example", "HTTPS://EXAMPLE.COM", "https://example.com/", "")
	// the text of (up to three) configured patterns that contain a wildcard: not an origin, hence never allowed
	nw := 0
	for _, o := range c.Origins {
		if strings.Contains(string(o), "*") && o != "*" && nw < 3 {
			origins = append(origins, string(o))
			nw++
		}
	}
	var okOrigin string
	if len(allowed) > 0 {
		okOrigin = allowed[0]
	} else {
		okOrigin = "https://any.example"
	}

	_, ms := listedMethods(c)
	methods := []string{"GET", "PUT", "UNLISTED", "patch"}
	for i, m := range ms {
		if i >= 3 {
			break
		}
		methods = append(methods, m)
		if l := lower(m); l != m {
			methods = append(methods, l)
		}
	}
	methods = dedupe(methods)

	_, _, names := listedReqHdrs(c)
	acrhs := [][]string{nil, {"authorization"}, {"x-unlisted"}, {"x-foo"}, {"x-bar,x-foo"}, {""}}
	for i, n := range names {
		if i >= 3 {
			break
		}
		acrhs = append(acrhs, []string{n})
	}
	if len(names) >= 2 {
		acrhs = append(acrhs, []string{strings.Join(names, ",")})
		acrhs = append(acrhs, []string{strings.Join(names, ", ")})
		acrhs = append(acrhs, names) // one name per field line
		acrhs = append(acrhs, []string{names[1] + "," + names[0]})
		acrhs = append(acrhs, []string{names[0] + "," + names[0]})
		// several field lines whose lines are fine one by one but not together
		acrhs = append(acrhs, []string{names[1], names[0]})
		acrhs = append(acrhs, []string{names[0], names[0]})
		acrhs = append(acrhs, []string{names[len(names)-1], strings.Join(names, ",")})
		acrhs = append(acrhs, []string{names[0], ",,,,,,,,,", ",,,,,,,,," + names[1]})
	}
	if len(names) >= 1 {
		acrhs = append(acrhs, []string{names[0] + ",x-unlisted"})
		acrhs = append(acrhs, []string{strings.ToUpper(names[0])})
		acrhs = append(acrhs, []string{",," + names[0] + " ,"})
	}

	var suite []Req
	suite = append(suite, Req{Method: "GET"}, Req{Method: "OPTIONS"}, Req{Method: "POST", Hdr: []HV{{hACRM, Vals("PUT")}}},
		Req{Method: "OPTIONS", Hdr: []HV{{hACRM, Vals("PUT")}}})
	for _, o := range origins {
		suite = append(suite, Actual("GET", o), Actual("OPTIONS", o), Actual("PUT", o))
		suite = append(suite, Preflight(o, "PUT"))
		if len(ms) > 0 {
			suite = append(suite, Preflight(o, ms[0]))
		}
		suite = append(suite, Preflight(o, "GET").With(hACRPN, "true"))
	}
	for _, m := range methods {
		for _, a := range acrhs {
			r := Preflight(okOrigin, m, a...)
			suite = append(suite, r)
		}
	}
	for _, a := range acrhs {
		suite = append(suite, Preflight(okOrigin, "GET", a...).With(hACRPN, "true"))
	}
	suite = append(suite,
		Preflight(okOrigin, "PUT").With(hACRPN, "false"),
		Preflight(okOrigin, "PUT").With(hACRPN, "true", "false"),
		Req{Method: "OPTIONS", Hdr: []HV{{hOrigin, Vals(okOrigin, "https://unrelated.example")}, {hACRM, Vals("GET")}}},
		Req{Method: "GET", Hdr: []HV{{hOrigin, Vals("https://unrelated.example", okOrigin)}}},
		Req{Method: "OPTIONS", Hdr: []HV{{hOrigin, Vals(okOrigin)}, {hACRM, nil}}},
		Req{Method: "OPTIONS", Hdr: []HV{{hOrigin, Vals(okOrigin)}, {hACRM, Vals("")}}},
		Req{Method: "OPTIONS", Hdr: []HV{{hOrigin, nil}, {hACRM, Vals("GET")}}},
	)
	return suite
}

// CrossSuite returns preflights from an origin that cur allows which mention the vocabulary of another
// configuration: its method spellings exactly as supplied and its request-header names. What one configuration
// (accepted elsewhere, or rejected here) says about a name must not leak into how cur's middleware answers.
func CrossSuite(cur *Cfg, other Cfg) []Req {
	ok := "https://any.example"
	if cur != nil {
		if allowed, _ := originPools(*cur); len(allowed) > 0 {
			ok = allowed[0]
		}
	}
	var out []Req
	seen := map[string]bool{}
	for _, m := range other.Methods {
		if s := string(m); s != "" && s != "*" && !seen["m"+s] && len(out) < 16 {
			seen["m"+s] = true
			out = append(out, Preflight(ok, s))
		}
	}
	n := 0
	for _, h := range other.RequestHeaders {
		if s := lower(string(h)); s != "" && s != "*" && !seen["h"+s] && n < 16 {
			seen["h"+s] = true
			n++
			out = append(out, Preflight(ok, "GET", s))
		}
	}
	return out
}

// everyOther picks up to n entries spread evenly over xs (deterministic).
func everyOther(xs []string, n int) []string {
	if len(xs) <= n {
		return xs
	}
	out := make([]string, 0, n)
	for i := 0; i < n; i++ {
		out = append(out, xs[i*len(xs)/n])
	}
	return out
}

func dedupe(xs []string) []string {
	seen := map[string]bool{}
	out := xs[:0:0]
	for _, x := range xs {
		if !seen[x] {
			seen[x] = true
			out = append(out, x)
		}
	}
	return out
}
