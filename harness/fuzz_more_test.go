package harness

import "testing"

// Coverage-guided variants (thorough tier) of properties whose rapid part has
// no fuzz twin in its own file: the fuzzer's bytes drive the same generator and
// the same oracle (FuzzProp), so coverage feedback from the library steers the
// search towards branches the random draws seldom reach.

func FuzzC02(f *testing.F) {
	FuzzProp(f, Prop[C02Case]{ID: "C02", Gen: c02Gen, Check: c02Check})
}
func FuzzC04(f *testing.F) {
	FuzzProp(f, Prop[CfgCase]{ID: "C04", Gen: c04Gen, Check: c04Check})
}
func FuzzC05(f *testing.F) {
	FuzzProp(f, Prop[CfgCase]{ID: "C05", Gen: c05Gen, Check: c05Check})
}
func FuzzC10(f *testing.F) {
	FuzzProp(f, Prop[C10Case]{ID: "C10", Gen: c10Gen, Check: c10Check})
}
func FuzzC11(f *testing.F) {
	FuzzProp(f, Prop[C11Case]{ID: "C11", Gen: c11Gen, Check: c11Check})
}
func FuzzC16(f *testing.F) {
	FuzzProp(f, Prop[C16Case]{ID: "C16", Gen: c16Gen, Check: c16Check})
}
func FuzzC15(f *testing.F) {
	FuzzProp(f, Prop[C15Case]{ID: "C15", Gen: c15Gen, Check: c15Check})
}
func FuzzC06(f *testing.F) {
	FuzzProp(f, Prop[C06Case]{ID: "C06", Gen: c06Gen, Check: c06Check})
}
