package harness

import (
	"encoding/json"
	"fmt"
	"testing"

	"github.com/jub0bs/cors"
	"pgregory.net/rapid"
)

// C06: Config() round-trips; Reconfigure(Config()) is a no-op; the three
// ways of building a middleware agree.

type C06Case struct {
	Cfg Cfg `json:"cfg"`
}

func cfgJSON(c *cors.Config) string {
	if c == nil {
		return "null"
	}
	raw, _ := json.Marshal(CfgFromCors(c))
	return string(raw)
}

func sigsFor(m *cors.Middleware, suite []Req, debug bool) []string {
	m.SetDebug(debug)
	return SuiteSig(m.Wrap, suite)
}

func hasIPLiteral(c Cfg) bool {
	for _, o := range c.Origins {
		if p, ok := SplitPat(string(o)); ok {
			if p.Host != "" && (p.Host[0] == '[' || isDig(p.Host[0])) {
				return true
			}
		}
	}
	return false
}

func c06Gen(t *rapid.T) C06Case {
	c := genValidCfg(t)
	if !c.Credentialed && !c.PNA && !c.PNANoCORS && chance(t, "wide", 6) {
		// many patterns around one base host: Config() lists them in its own order, so the twin is built in another
		// insertion order than the original
		c.Origins, c.TolPSL, c.TolInsecure = patStrings(genWidePatList(t)), true, true
	}
	// make IP literals, trailing dots and subsuming patterns frequent
	if !c.AllowAll() && chance(t, "addip", 35) {
		extra := pick(t, "ip", []string{"http://[::1]", "http://[::1]:9090", "http://127.0.0.1:*", "http://[::1]:*"})
		c.Origins = insertAt(t, c.Origins, extra)
	}
	if !c.AllowAll() && c.TolInsecure && chance(t, "addip6", 25) {
		c.Origins = insertAt(t, c.Origins, pick(t, "ip6", []string{"http://[2001:db8::1]", "http://[2001:db8::1]:8080", "http://[fe80::1]:*", "http://10.0.0.1"}))
	}
	return C06Case{Cfg: c}
}

func c06Check(cc C06Case, rec *Recorder) *Disc {
	c := cc.Cfg
	m1, err := cors.NewMiddleware(c.Cors())
	if err != nil {
		rec.Class("rejected-config")
		return nil
	}
	c2 := m1.Config()
	if c2 == nil {
		return discf("Config() of a configured middleware is nil: %+v", c)
	}
	m2, err := cors.NewMiddleware(*c2)
	if err != nil {
		return discf("cfg %+v: the Config() result %s is rejected by NewMiddleware: %v", c, cfgJSON(c2), err)
	}
	m3 := new(cors.Middleware)
	cfg := c.Cors()
	if err := m3.Reconfigure(&cfg); err != nil {
		return discf("cfg %+v accepted by NewMiddleware but rejected by Reconfigure on a zero value: %v", c, err)
	}
	suite := Suite(c)
	var base [2][]string
	for di, debug := range []bool{false, true} {
		s1 := sigsFor(m1, suite, debug)
		s2 := sigsFor(m2, suite, debug)
		s3 := sigsFor(m3, suite, debug)
		rec.Eval(3 * len(suite))
		if i := firstDiff(s1, s2); i >= 0 {
			return discf("cfg %+v debug=%v: middleware built from Config() (%s) answers {%s} with %s, original answers %s", c, debug, cfgJSON(c2), suite[i].Brief(), abbrev(s2[i], 400), abbrev(s1[i], 400))
		}
		if i := firstDiff(s1, s3); i >= 0 {
			return discf("cfg %+v debug=%v: zero value + Reconfigure answers {%s} with %s, NewMiddleware answers %s", c, debug, suite[i].Brief(), abbrev(s3[i], 400), abbrev(s1[i], 400))
		}
		base[di] = s1
	}
	// m1 is in debug mode now; Reconfigure(Config()) must succeed and change nothing
	if err := m1.Reconfigure(m1.Config()); err != nil {
		return discf("cfg %+v: m.Reconfigure(m.Config()) fails: %v (Config() = %s)", c, err, cfgJSON(c2))
	}
	wrap1 := oneWrap(m1.Wrap)       // one wrapped handler across SetDebug
	after := SuiteSig(wrap1, suite) // debug must still be on
	rec.Eval(len(suite))
	if i := firstDiff(base[1], after); i >= 0 {
		return discf("cfg %+v: after m.Reconfigure(m.Config()) in debug mode, {%s} is answered %s instead of %s", c, suite[i].Brief(), abbrev(after[i], 400), abbrev(base[1][i], 400))
	}
	m1.SetDebug(false)
	after = SuiteSig(wrap1, suite)
	if i := firstDiff(base[0], after); i >= 0 {
		return discf("cfg %+v: after m.Reconfigure(m.Config()), {%s} is answered %s instead of %s", c, suite[i].Brief(), abbrev(after[i], 400), abbrev(base[0][i], 400))
	}
	// the n-th Config() call and the n-th Reconfigure(Config()) round trip say and do what the first ones did
	if h := h64(fmt.Sprintf("%+v", c)); h%10 == 0 {
		n := []int{17, 70, 130, 260, 300, 1030}[(h/10)%6]
		first := cfgJSON(m1.Config())
		for i := 0; i < n; i++ {
			if i%3 == 2 {
				if err := m1.Reconfigure(m1.Config()); err != nil {
					return discf("cfg %+v: round trip no. %d, m.Reconfigure(m.Config()), fails: %v", c, i, err)
				}
			}
			if got := cfgJSON(m1.Config()); got != first {
				return discf("cfg %+v: Config() call no. %d returns %s, the first one returned %s", c, i+2, got, first)
			}
		}
		rec.Class("many-config-calls-and-round-trips")
		if after := SuiteSig(wrap1, suite); firstDiff(base[0], after) >= 0 {
			i := firstDiff(base[0], after)
			return discf("cfg %+v: after %d Config() calls and round trips, {%s} is answered %s instead of %s", c, n, suite[i].Brief(), abbrev(after[i], 400), abbrev(base[0][i], 400))
		}
	}
	// stability: after one round trip Config() no longer changes
	c3 := m1.Config()
	if err := m1.Reconfigure(c3); err != nil {
		return discf("cfg %+v: second round trip fails: %v", c, err)
	}
	c4 := m1.Config()
	if cfgJSON(c3) != cfgJSON(c4) {
		return discf("cfg %+v: Config() keeps changing after a round trip: %s then %s", c, cfgJSON(c3), cfgJSON(c4))
	}
	origJSON, _ := json.Marshal(c)
	normalised := string(origJSON) != cfgJSON(c2)
	if cfgJSON(c2) != cfgJSON(c3) {
		rec.Class("config-changed-once-more-on-first-round-trip(legitimate)")
	}
	if hasIPLiteral(c) {
		rec.Class("ip-literal-host")
	}
	if (len(c.Origins) >= 2 || hasIPLiteral(c)) && normalised {
		rec.NonTrivialHash(h64(fmt.Sprintf("%+v", c)))
	}
	return nil
}

func TestC06(t *testing.T) {
	Prop[C06Case]{ID: "C06", Gen: c06Gen, Check: c06Check,
		Rule: "generator: valid configurations (IPv4 and bracketed IPv6 hosts, trailing-dot hosts, wildcard ports/subdomains, duplicates and mutually subsuming patterns, * mixed with discrete values in every list, safelisted-only lists, max-age -1/0, explicit 204) " +
			"x the ~150-request suite derived from each configuration x debug off/on x three constructions (NewMiddleware(c), NewMiddleware(*Config()), zero value + Reconfigure(&c)); then m.Reconfigure(m.Config()) in debug mode, then stability c3==c4. " +
			"evaluations = responses compared. non-trivial = configuration with >=2 origin patterns or an IP-literal host whose Config() differs from the input (normalisation did something); distinct by configuration.",
		Assumptions: []string{"the derived request suite distinguishes the configurations that matter (see Suite)", "c2 != c3 is legitimate and only counted; the stability clause is checked as worded (c3 == c4)"}}.Run(t)
}
