package harness

import (
	"fmt"
	"net/http"
	"sort"
	"strconv"
	"strings"
	"testing"

	"github.com/jub0bs/cors"
	"pgregory.net/rapid"
)

// C03: CORS response headers are well-formed and never over-grant, for any
// request whatsoever.

type C03Case struct {
	Cfg   Cfg   `json:"cfg"`
	Debug bool  `json:"debug"`
	Reqs  []Req `json:"reqs"`
	// Rewriting lists the indexes of requests that are served by an inner handler which rewrites in place
	// the first value of every header slice it can reach; their own responses are not judged, the later ones are.
	Rewriting []int `json:"rewriting,omitempty"`
	// Via selects the history through which the middleware reaches the state (Cfg, Debug); see mkMWVia.
	Via int `json:"via,omitempty"`
	// Passes > 0: the batch is served that many more times, one after the other (the 300th, 5000th, 70000th request
	// through the same middleware). Servers > 1: that many handlers are wrapped by the one middleware and take turns.
	// WrapEach: Wrap is called anew for every request instead (the k-th Wrap call).
	Passes   int  `json:"passes,omitempty"`
	Servers  int  `json:"servers,omitempty"`
	WrapEach bool `json:"wrap_each,omitempty"`
}

func (c C03Case) Brief() any {
	rs := make([]string, len(c.Reqs))
	for i, r := range c.Reqs {
		rs[i] = r.Brief()
	}
	return map[string]any{"cfg": c.Cfg, "debug": c.Debug, "reqs": rs, "rewriting": c.Rewriting}
}

func mkMW(c Cfg, debug bool) (*cors.Middleware, error) {
	m, err := cors.NewMiddleware(c.Cors())
	if err != nil {
		return nil, err
	}
	if debug {
		m.SetDebug(true)
	}
	return m, nil
}

// mkMWVia builds a middleware in the state (c, debug) through one of several
// histories that the documentation says are equivalent (C06, C08, C09):
//
//	0 NewMiddleware(c)                       3 NewMiddleware(other); SetDebug(!debug); Reconfigure(c)
//	1 zero value; Reconfigure(c)             4 NewMiddleware(c); [SetDebug]; Reconfigure(Config())
//	2 NewMiddleware(c); SetDebug(true);      5 NewMiddleware(c); a rejected Reconfigure
//	  Reconfigure(nil); Reconfigure(c)
//
// followed by SetDebug(true) if debug is wanted. When debug is not wanted no
// final SetDebug(false) is issued: the history itself must have left it off
// (3 is the exception, it needs one).
func mkMWVia(c Cfg, debug bool, via int) (*cors.Middleware, error) {
	m, err := cors.NewMiddleware(c.Cors())
	if err != nil {
		return nil, err
	}
	cc := c.Cors()
	switch via {
	case 1:
		m = new(cors.Middleware)
		err = m.Reconfigure(&cc)
	case 2:
		m.SetDebug(true)
		m.Reconfigure(nil)
		err = m.Reconfigure(&cc)
	case 3:
		m, _ = cors.NewMiddleware(cors.Config{Origins: []string{"https://other.example"}, Methods: []string{"PURGE"}, RequestHeaders: []string{"X-Other"}, MaxAgeInSeconds: 3})
		m.SetDebug(!debug)
		err = m.Reconfigure(&cc)
		m.SetDebug(debug)
	case 4:
		m.SetDebug(debug)
		err = m.Reconfigure(m.Config())
	case 5:
		bad := cors.Config{Origins: []string{"https://example.com/"}, Methods: []string{"TRACE"}, MaxAgeInSeconds: -7}
		if m.Reconfigure(&bad) == nil {
			return nil, fmt.Errorf("an invalid configuration was accepted")
		}
	}
	if err != nil {
		return nil, err
	}
	if debug {
		m.SetDebug(true)
	}
	return m, nil
}

const nVia = 6

var safelistedResHdr = map[string]bool{"cache-control": true, "content-language": true, "content-length": true, "content-type": true,
	"expires": true, "last-modified": true, "pragma": true}

// expectedACEH is the normal form of Config.ResponseHeaders.
func expectedACEH(c Cfg) string {
	set := map[string]bool{}
	for _, h := range c.ResponseHeaders {
		if h == "*" {
			return "*"
		}
		l := lower(string(h))
		if !safelistedResHdr[l] {
			set[l] = true
		}
	}
	var names []string
	for n := range set {
		names = append(names, n)
	}
	sort.Strings(names)
	return strings.Join(names, ",")
}

// sameNameSet compares the names listed in the field lines v with the
// comma-separated list want as case-insensitive sets; safelisted
// response-header names, which are exposed anyway, do not count. How the
// names are joined, ordered or cased is not documented.
func sameNameSet(v []string, want string) bool {
	set := func(lines []string) map[string]bool {
		out := map[string]bool{}
		for _, l := range lines {
			for _, el := range strings.Split(l, ",") {
				if n := lower(strings.Trim(el, " \t")); n != "" && !safelistedResHdr[n] {
					out[n] = true
				}
			}
		}
		return out
	}
	a, b := set(v), set([]string{want})
	if len(a) != len(b) {
		return false
	}
	for n := range a {
		if !b[n] {
			return false
		}
	}
	return true
}

func expectedACMA(c Cfg) []string {
	switch {
	case c.MaxAge == -1:
		return []string{"0"}
	case c.MaxAge == 0:
		return nil
	}
	return []string{strconv.Itoa(c.MaxAge)}
}


func isPreflight(r Req) bool {
	_, o := firstVal(r, hOrigin)
	_, m := firstVal(r, hACRM)
	return r.Method == "OPTIONS" && o && m
}

// bracketedHostEcho recognises the one known over-grant (finding F4): the
// first Origin value has the form scheme://[X] or scheme://[X]:port where X
// is not an IPv6 literal, and the same value without the brackets is allowed.
func bracketedHostEcho(m OriginModel, origin string) bool {
	i := strings.Index(origin, "://[")
	if i < 0 {
		return false
	}
	j := strings.LastIndexByte(origin, ']')
	if j < i+4 {
		return false
	}
	inner := origin[i+4 : j]
	rest := origin[j+1:]
	if rest != "" && !strings.HasPrefix(rest, ":") {
		return false
	}
	if _, ok := SplitOrigin(origin); ok {
		return false // a genuine IPv6 origin is not this finding
	}
	// What is between the brackets is not validated at all and is matched as if it were the host: it equals the host
	// of a listed pattern, or it ends with "." + the host of a listed wildcard pattern (whatever bytes come before).
	// Scheme and port are judged as usual, through a well-formed stand-in that relates to the pattern the same way.
	for _, p := range m.Pats {
		standIn := ""
		switch {
		case !p.Wild && inner == p.Host:
			standIn = p.Host
		case p.Wild && len(inner) > len(p.Host)+1 && strings.HasSuffix(inner, "."+p.Host):
			standIn = "x." + p.Host
		default:
			continue
		}
		if o, ok := SplitOrigin(origin[:i+3] + standIn + rest); ok && Denotes(p, o) {
			return true
		}
	}
	return false
}

func eq1(vs []string, want string) bool { return len(vs) == 1 && vs[0] == want }

func eqStrs(a, b []string) bool {
	if len(a) != len(b) {
		return false
	}
	for i := range a {
		if a[i] != b[i] {
			return false
		}
	}
	return true
}

// c03Invariants checks one response. It returns a discrepancy (possibly
// tagged as known finding) or nil.
func c03Invariants(c Cfg, model OriginModel, debug bool, r Req, resp Resp) *Disc {
	H := resp.Hdr
	where := func() string {
		return fmt.Sprintf("cfg %+v debug=%v request {%s} -> status %d headers %s", c, debug, r.Brief(), resp.Status, abbrev(hdrSig(H), 600))
	}
	origin, hasOrigin := firstVal(r, hOrigin)
	anonAll := c.AllowAll() && !c.Credentialed
	pf := isPreflight(r)

	acao, hasACAO := H[hACAO]
	if hasACAO && len(acao) != 1 {
		return discf("(1) %d Access-Control-Allow-Origin values: %s", len(acao), where())
	}
	allowedOrigin := hasOrigin && model.DenotedBy(origin)
	if hasACAO {
		v := acao[0]
		switch {
		case v == "*":
			if !anonAll {
				return discf("(2) ACAO * under a configuration that is not anonymous allow-all: %s", where())
			}
		case !hasOrigin || v != origin:
			return discf("(2) ACAO %q is not the byte-exact first Origin value: %s", abbrev(v, 100), where())
		case !allowedOrigin && !c.AllowAll():
			d := discf("(2) ACAO echoes an origin that is not allowed (%q): %s", abbrev(origin, 100), where())
			if bracketedHostEcho(model, origin) {
				d.KF = "bracketed-host-echo"
			}
			return d
		}
	}
	if acac, ok := H[hACAC]; ok {
		if !eq1(acac, "true") || !c.Credentialed || !hasACAO || acao[0] == "*" {
			return discf("(3) ACAC %q without credentialed echo: %s", acac, where())
		}
	}
	if !c.AllowAll() && !allowedOrigin {
		for k := range H {
			if strings.HasPrefix(k, "Access-Control-") {
				d := discf("(4) request without an allowed origin got %s: %s", k, where())
				if hasOrigin && bracketedHostEcho(model, origin) {
					d.KF = "bracketed-host-echo"
				}
				return d
			}
		}
	}
	for _, k := range []string{hACAM, hACAH, hACAPN, hACMA} {
		if _, ok := H[k]; ok && !pf {
			return discf("(5) %s on a response to a non-preflight request: %s", k, where())
		}
	}
	if _, ok := H[hACEH]; ok && pf {
		return discf("(5) ACEH on a preflight response: %s", where())
	}
	if v, ok := H[hACMA]; ok && !eqStrs(v, expectedACMA(c)) {
		return discf("(5) ACMA %q, configured rendering %q: %s", v, expectedACMA(c), where())
	}
	if v, ok := H[hACEH]; ok && !sameNameSet(v, expectedACEH(c)) {
		return discf("(5) ACEH %q does not carry exactly the configured names %q (compared as a case-insensitive set, safelisted names aside): %s", v, expectedACEH(c), where())
	}
	if v, ok := H[hACAPN]; ok && (!eq1(v, "true") || !(c.PNA || c.PNANoCORS)) {
		return discf("(5) ACAPN %q although private-network access is %v: %s", v, c.PNA || c.PNANoCORS, where())
	}
	// "carrying exactly the configured values": a successful debug-off
	// preflight carries the configured max-age, an actual response that
	// carries ACAO carries the configured exposed headers.
	if pf && !debug && resp.Status == c.SuccessStatus() && hasACAO {
		if _, ok := H[hACMA]; ok != (c.MaxAge != 0) {
			return discf("(5) successful preflight: ACMA present=%v but MaxAge=%d: %s", ok, c.MaxAge, where())
		}
	}
	if !pf && hasACAO {
		if _, ok := H[hACEH]; ok != (expectedACEH(c) != "") {
			return discf("(5) response with ACAO: ACEH present=%v, configured %q: %s", ok, expectedACEH(c), where())
		}
	}
	return nil
}

func c03Gen(t *rapid.T) C03Case {
	c := C03Case{Cfg: genValidCfg(t), Debug: chance(t, "debug", 40)}
	if chance(t, "one-violation-config", 12) {
		// "every ACCEPTED configuration": a configuration with exactly one documented violation is
		// expected to be rejected (then the case is trivial); should the library accept it, the
		// claims about responses apply to it all the same
		c.Cfg = genAtomCfg(t, mixOneViolation)
	}
	if chance(t, "via", 40) {
		c.Via = uniform(t, "viakind", nVia)
	}
	p := poolsOf(c.Cfg)
	n := intIn(t, "nreqs", 4, 24)
	for i := 0; i < n; i++ {
		c.Reqs = append(c.Reqs, genReq(t, p))
		if i < n-1 && chance(t, "rewriting", 8) {
			c.Rewriting = append(c.Rewriting, i)
		}
	}
	if chance(t, "manyrequests", 3) {
		// the n-th time: total request counts around 2^8, 2^10, 2^12 and (rarely) 2^16
		total := pick(t, "totalreqs", []int{130, 260, 300, 520, 1030, 1100, 4100})
		if chance(t, "hugetotal", 4) {
			total = 66000
		}
		c.Passes = total / n
		c.WrapEach = chance(t, "wrapeach", 35)
	}
	if !c.WrapEach && chance(t, "manyservers", 6) {
		c.Servers = pick(t, "nservers", []int{2, 3, 9, 17, 33, 70, 130, 260})
	}
	return c
}

func intStrs(xs []int) []string {
	out := make([]string, len(xs))
	for i, x := range xs {
		out[i] = fmt.Sprint(x)
	}
	return out
}

func c03Check(c C03Case, rec *Recorder) *Disc {
	m, err := mkMWVia(c.Cfg, c.Debug, c.Via)
	rec.Class(fmt.Sprintf("via-%d", c.Via))
	if err != nil {
		rec.Class("rejected-config")
		return nil
	}
	model := NewOriginModel(c.Cfg.Origins)
	var kf *Disc
	// the whole batch through one wrapped handler - or through several handlers wrapped by the one middleware, taking
	// turns - or through a handler wrapped anew for every request
	wraps := []func(http.Handler) http.Handler{oneWrap(m.Wrap)}
	for i := 1; i < c.Servers && i < 300; i++ {
		wraps = append(wraps, oneWrap(m.Wrap))
	}
	if c.WrapEach {
		wraps = []func(http.Handler) http.Handler{m.Wrap}
	}
	if c.Passes > 0 {
		rec.Class("many-requests")
	}
	if len(wraps) > 1 {
		rec.Class("several-wrapped-handlers")
	}
	nreq := len(c.Reqs) * (1 + min(c.Passes, 20000))
	for k := 0; k < nreq; k++ {
		ri, r := k%len(c.Reqs), c.Reqs[k%len(c.Reqs)]
		wrap := wraps[k%len(wraps)]
		if k == len(c.Reqs)/2 {
			m.Config() // an observer, called in the middle of the batch
		}
		if contains(intStrs(c.Rewriting), fmt.Sprint(ri)) {
			DoScript(wrap, r, nil, rewritingHandler)
			rec.Class("served-by-rewriting-handler")
			continue
		}
		resp := Do(wrap, r, nil)
		rec.Eval(1)
		origin, hasOrigin := firstVal(r, hOrigin)
		vs, _ := r.Get(hOrigin)
		_, wf := SplitOrigin(origin)
		switch {
		case !hasOrigin:
			rec.Class("no-origin")
		case !wf:
			rec.Class("origin-malformed")
		case model.DenotedBy(origin):
			rec.Class("origin-allowed")
		default:
			rec.Class("origin-near-miss-or-unrelated")
		}
		if k < len(c.Reqs) && (hasOrigin && (!wf || !model.DenotedBy(origin) || len(vs) > 1) || (isPreflight(r) && c.Cfg.Credentialed)) {
			rec.NonTrivialHash(h64(fmt.Sprintf("%+v|%v", c.Cfg, c.Debug), r.Brief()))
		}
		if _, ok := resp.Hdr[hACAO]; ok {
			rec.Class("acao-emitted")
		}
		if d := c03Invariants(c.Cfg, model, c.Debug, r, resp); d != nil {
			if d.KF != "" {
				if _, open := kfOpen("C03", d.KF); open {
					rec.Excluded(d.KF, d.Msg)
					kf = d
					continue
				}
			}
			return d
		}
	}
	_ = kf
	return nil
}

func c03Prop() Prop[C03Case] {
	return Prop[C03Case]{ID: "C03", Gen: c03Gen, Check: c03Check,
		Rule: "generator: the middleware reaches its state through one of six histories documented as equivalent (NewMiddleware; zero value + Reconfigure; SetDebug(true), Reconfigure(nil), Reconfigure(c); Reconfigure from another configuration with the opposite debug mode; Reconfigure(Config()); after a rejected Reconfigure); valid configuration (all switches, origin kinds incl. allow-all, method/header/response-header lists, max-age, status; 12% of cases instead a configuration with exactly one documented violation, which is judged only if the library accepts it) x debug x batch of 4-24 arbitrary requests (3%: the batch served again and again up to 130-4100, rarely 66000 requests in all, through one wrapped handler or with Wrap called anew each time; 6%: 2-260 handlers wrapped by the one middleware taking turns) " +
			"(any method; Origin/ACRM/ACRH/ACRPN absent, zero-valued, single, multi-valued; values from config-derived pools: allowed, near-miss, 34 malformations incl. upper case, userinfo, path/query/fragment, " +
			"bracketed non-IP host, unmatched bracket, leading-zero/6-digit/zero/65536 port, NUL, non-ASCII, null, empty, 1KiB-1MiB values, junk bytes). evaluations = responses checked against the five invariants. " +
			"non-trivial = request whose Origin is present and malformed, a near-miss or multi-valued, or a preflight under a credentialed configuration; distinct by (configuration, debug, request).",
		Assumptions: []string{"inner handler sets no CORS header (8% of the requests of a batch are served by a handler that rewrites header slots in place; those responses are not judged, the following ones are)", "origin model as in C01; an origin that does not match the serialisation grammar is 'not an origin' and hence not allowed",
			"known finding bracketed-host-echo is excluded by signature and counted"}}
}

func TestC03(t *testing.T) { c03Prop().Run(t) }

func FuzzC03(f *testing.F) { FuzzProp(f, c03Prop()) }
