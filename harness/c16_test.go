package harness

import (
	"fmt"
	"strings"
	"testing"

	"pgregory.net/rapid"
)

// C16: with debug off, preflight responses disclose nothing beyond what was
// asked.

type C16Case struct {
	Base Cfg   `json:"base"`          // configuration without canaries
	Reqs []Req `json:"reqs"`          // preflight requests
	Via  int   `json:"via,omitempty"` // history through which the debug-off state is reached; see mkMWVia
}

func (c C16Case) Brief() any {
	rs := make([]string, len(c.Reqs))
	for i, r := range c.Reqs {
		rs[i] = r.Brief()
	}
	return map[string]any{"base": c.Base, "reqs": rs}
}

const (
	canaryOrigin = "https://canary-origin.example"
	canaryMethod = "CANARYMETHOD"
	canaryReqHdr = "X-Canary-Req"
	canaryResHdr = "X-Canary-Res"
)

// withCanaries adds entries that no generated request ever mentions.
func withCanaries(c Cfg) Cfg {
	w := c
	w.Origins = append(append([]Str{}, c.Origins...), canaryOrigin)
	w.Methods = append(append([]Str{}, c.Methods...), canaryMethod)
	w.RequestHeaders = append(append([]Str{}, c.RequestHeaders...), canaryReqHdr)
	w.ResponseHeaders = append(append([]Str{}, c.ResponseHeaders...), canaryResHdr)
	return w
}

func c16Gen(t *rapid.T) C16Case {
	c := C16Case{Base: genValidCfg(t)}
	if chance(t, "via", 50) {
		c.Via = uniform(t, "viakind", nVia)
	}
	p := poolsOf(c.Base)
	n := intIn(t, "nreqs", 4, 20)
	for i := 0; i < n; i++ {
		r := Req{Method: "OPTIONS"}
		ovals := []Val{genOriginVal(t, p)}
		if chance(t, "multiorigin", 10) {
			ovals = append(ovals, genOriginVal(t, p))
		}
		r.Hdr = append(r.Hdr, HV{hOrigin, ovals})
		mvals := []Val{genACRMVal(t, p)}
		if chance(t, "multiacrm", 10) {
			mvals = append(mvals, genACRMVal(t, p))
		}
		r.Hdr = append(r.Hdr, HV{hACRM, mvals})
		if chance(t, "acrh", 65) {
			r.Hdr = append(r.Hdr, HV{hACRH, genValList(t, "acrh", func() Val { return genACRHLine(t, p) })})
		}
		if chance(t, "acrpn", 35) {
			r.Hdr = append(r.Hdr, HV{hACRPN, Vals(pick(t, "acrpnv", []string{"true", "true", "false", ""}))})
		}
		genOtherHeaders(t, &r)
		genHostTLS(t, &r)
		if chance(t, "target", 10) {
			r.Target = pick(t, "targetv", []string{"*", "/a?b"})
		}
		c.Reqs = append(c.Reqs, r)
	}
	return c
}

// preflightOutcome is the reference verdict for a debug-off preflight, put
// together from the other reference models: origin allowed, private-network
// request only if a PNA mode is on, method safelisted / listed / *, requested
// headers absent / covered by * / approved by the reference list reader.
// judged is false where the documentation leaves the answer open (several Origin/ACRM/ACRPN field lines, an ACRH key without values, malformed
// Origin under allow-all, over-long origins, the known bracketed-host finding).
func preflightOutcome(c Cfg, model OriginModel, r Req) (success, judged bool) {
	// shapes no browser sends - several Origin, ACRM or ACRPN field lines, an ACRH key with no value at all - are
	// not judged: the documentation does not say whether the first line or all lines count
	for _, k := range []string{hOrigin, hACRM, hACRPN} {
		if vs, ok := r.Get(k); ok && len(vs) != 1 {
			return false, false
		}
	}
	if vs, ok := r.Get(hACRH); ok && len(vs) == 0 {
		return false, false
	}
	origin, _ := firstVal(r, hOrigin)
	if _, wf := SplitOrigin(origin); wf && !hostLenOK(origin) {
		return false, false
	}
	if c.AllowAll() {
		if _, wf := SplitOrigin(origin); !wf {
			return false, false
		}
	} else if !model.DenotedBy(origin) {
		return false, !bracketedHostEcho(model, origin)
	}
	if v, ok := firstVal(r, hACRPN); ok && v == "true" && !(c.PNA || c.PNANoCORS) {
		return false, true
	}
	acrm, _ := firstVal(r, hACRM)
	star, ms := listedMethods(c)
	if !safelistedMethod(acrm) && !star && !contains(ms, acrm) {
		return false, true
	}
	lines, has := r.Get(hACRH)
	if !has {
		return true, true
	}
	hstar, _, names := listedReqHdrs(c)
	if hstar {
		return true, true
	}
	if len(names) == 0 {
		return false, true
	}
	return acrhApproved(names, Strs(lines)), true
}

func hasCanary(s string) bool {
	l := strings.ToLower(s)
	return strings.Contains(l, "canary")
}

func c16Check(c C16Case, rec *Recorder) *Disc {
	cfg := withCanaries(c.Base)
	m, err := mkMWVia(cfg, false, c.Via) // "debug off" however that state was reached
	if err != nil {
		rec.Class("rejected-config")
		return nil
	}
	rec.Class(fmt.Sprintf("via-%d", c.Via))
	mBase, errBase := mkMW(c.Base, false)
	hstar, auth, names := listedReqHdrs(c.Base)
	model := NewOriginModel(cfg.Origins)
	// the whole batch goes through ONE wrapped handler, as on a real server: whatever the
	// wrapped handler keeps between requests must not show in a later response
	srv := NewServer(m.Wrap)
	ref := Do(srv.Wrap, Preflight("null", "GET"), nil) // the reference failure: a disallowed origin
	if len(ref.Hdr[hACAO]) != 0 {
		return discf("cfg %+v: preflight from the null origin is answered with ACAO %q", cfg, ref.Hdr[hACAO])
	}
	for ri, r := range c.Reqs {
		if !isPreflight(r) {
			continue
		}
		resp := Do(srv.Wrap, r, nil)
		rec.Eval(1)
		where := fmt.Sprintf("cfg %+v request #%d of the batch {%s} -> status %d headers %s", cfg, ri, r.Brief(), resp.Status, abbrev(hdrSig(resp.Hdr), 600))
		origin, _ := firstVal(r, hOrigin)
		acrm, _ := firstVal(r, hACRM)
		acrhVals, hasACRH := r.Get(hACRH)
		acrh := Strs(acrhVals)
		if resp.Called != 0 {
			return discf("preflight reached the wrapped handler: %s", where)
		}
		acao := resp.Hdr[hACAO]
		// which preflights fail is itself part of the claim ("fails for any reason"):
		// compare with the reference outcome
		if want, judged := preflightOutcome(cfg, model, r); judged {
			rec.Class("outcome-judged")
			if got := len(acao) > 0; got != want {
				return discf("reference outcome for this debug-off preflight is success=%v but the response says success=%v: %s", want, got, where)
			}
		} else {
			rec.Class("outcome-not-judged")
		}
		if len(acao) == 0 {
			// failing preflight: no Access-Control-* header, same status whatever the reason
			for k := range resp.Hdr {
				if strings.HasPrefix(k, "Access-Control-") {
					return discf("failing preflight discloses %s: %s", k, where)
				}
			}
			if resp.Status != ref.Status {
				return discf("failing preflight answered with status %d but a preflight from a disallowed origin gets %d: %s", resp.Status, ref.Status, where)
			}
			if cfg.AllowAll() || model.DenotedBy(origin) {
				rec.Class("fails-after-origin-step")
				rec.NonTrivialHash(h64(where))
			} else {
				rec.Class("fails-at-origin-step")
			}
		} else {
			rec.Class("succeeds")
			if hasACRH {
				rec.NonTrivialHash(h64(where))
			}
			if resp.Status != cfg.SuccessStatus() {
				return discf("preflight with ACAO answered with status %d, configured success status %d: %s", resp.Status, cfg.SuccessStatus(), where)
			}
			for k, v := range resp.Hdr {
				if !strings.HasPrefix(k, "Access-Control-") {
					continue
				}
				switch k {
				case hACAO:
					if !(eq1(v, "*") || eq1(v, origin)) {
						return discf("ACAO %q is neither * nor the request's origin: %s", v, where)
					}
				case hACAC:
					if !eq1(v, "true") || !cfg.Credentialed {
						return discf("%s = %q (credentialed=%v): %s", k, v, cfg.Credentialed, where)
					}
				case hACAPN:
					asked, _ := firstVal(r, hACRPN)
					if !eq1(v, "true") || asked != "true" {
						return discf("%s = %q although the request's ACRPN is %q: the response answers something that was not asked: %s", k, v, asked, where)
					}
				case hACAM:
					if !(eq1(v, "*") || eq1(v, acrm)) {
						return discf("ACAM %q names something other than * or the requested method %q: %s", v, acrm, where)
					}
				case hACAH:
					// every token named is *, the documented authorization next to *, or a token the request itself supplied
					// (how the tokens are spread over field lines is not pinned)
					supplied := map[string]bool{}
					for _, l := range acrh {
						for _, el := range strings.Split(l, ",") {
							supplied[strings.Trim(el, " \t")] = true
						}
					}
					sawStar := false
					for _, l := range v {
						for _, el := range strings.Split(l, ",") {
							tok := strings.Trim(el, " \t")
							switch {
							case tok == "*":
								sawStar = true
							case tok == "" || (hasACRH && supplied[tok]):
							case tok == "authorization" && !cfg.Credentialed && hstar && auth:
							default:
								return discf("ACAH %q names %q, which is neither *, the documented authorization next to *, nor a token of the request's own ACRH lines %q: %s", v, tok, acrh, where)
							}
						}
					}
					_ = sawStar
				case hACMA:
					if !eqStrs(v, expectedACMA(cfg)) {
						return discf("ACMA %q, configured %q: %s", v, expectedACMA(cfg), where)
					}
				default:
					return discf("unexpected header %s on a preflight response: %s", k, where)
				}
			}
		}
		for k, v := range resp.Hdr {
			for _, x := range v {
				if hasCanary(x) && !hasCanary(r.Brief()) {
					return discf("response header %s discloses a configured value the request never mentioned (%q): %s", k, abbrev(x, 200), where)
				}
			}
		}
		// metamorphic: entries nobody asked about do not influence the answer
		if errBase == nil && (hstar || len(names) > 0) {
			b := Do(mBase.Wrap, r, nil)
			rec.Eval(1)
			if b.Sig() != resp.Sig() {
				return discf("adding unrelated (canary) entries to the configuration changes the answer to {%s}: without %s, with %s (base cfg %+v)", r.Brief(), abbrev(b.Sig(), 400), abbrev(resp.Sig(), 400), c.Base)
			}
		}
	}
	return nil
}

func TestC16(t *testing.T) {
	Prop[C16Case]{ID: "C16", Gen: c16Gen, Check: c16Check,
		Rule: "generator: valid configuration extended with canary entries (an origin, a method, a request-header and a response-header name that no generated request mentions), debug off - a state reached through one of six histories documented as equivalent (among them SetDebug(true), Reconfigure(nil), Reconfigure(c) with no SetDebug(false) afterwards) -, x batch of 4-20 arbitrary preflight requests (any Origin incl. malformed/multi-valued, any ACRM, 0-3 ACRH lines, ACRPN), all served through ONE wrapped handler (one Wrap call) in sequence so that state kept between requests shows. " +
			"Oracle: ACAO present iff the reference outcome model (origin model + PNA switch + method rule + reference ACRH reader) says the preflight succeeds; no ACAO => no Access-Control-* header and the same status as a preflight from the null origin; ACAO => success status and only *, true, the configured max-age and tokens the request itself supplied (every ACAH token is *, the documented authorization next to *, or a token of the request's own ACRH lines), ACAC only on a credentialed configuration, ACAPN only if the request sent ACRPN: true; no canary substring anywhere; " +
			"metamorphic: removing the canaries (and serving the request alone through a freshly wrapped handler) does not change the response (when the base keeps >=1 request-header entry). non-trivial = preflight from an allowed origin that fails at a later step, or succeeds with ACRH present; distinct by (configuration, request).",
		Assumptions: []string{"a preflight from Origin: null is the reference failure for every configuration"}}.Run(t)
}
