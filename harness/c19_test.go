package harness

import (
	"errors"
	"fmt"
	"testing"

	"github.com/jub0bs/cors"
	"github.com/jub0bs/cors/cfgerrors"
	"pgregory.net/rapid"
)

// C19: cfgerrors.All yields exactly the leaf errors and honours early exit.

// ENode is a join tree: a node without kids is a leaf (Leaf indexes the leaf
// pool), a node with kids is errors.Join(kids...).
type ENode struct {
	Leaf int     `json:"leaf,omitempty"`
	Kids []ENode `json:"kids,omitempty"`
}

type C19Case struct {
	Tree  ENode `json:"tree"`
	Break int   `json:"break_after"` // stop after this many items (0-based index of the last accepted item); -1 = never
	Cfg   *Cfg  `json:"cfg,omitempty"`
}

type foreignErr struct{ n int }

func (f *foreignErr) Error() string { return fmt.Sprintf("foreign %d", f.n) }

func newLeafPool() []error {
	return []error{
		&cfgerrors.UnacceptableOriginPatternError{Value: "x", Reason: "invalid"},
		&cfgerrors.UnacceptableMethodError{Value: "TRACE", Reason: "forbidden"},
		&cfgerrors.UnacceptableHeaderNameError{Value: "Cookie", Type: "request", Reason: "forbidden"},
		&cfgerrors.MaxAgeOutOfBoundsError{Value: -2, Default: 5, Max: 86400, Disable: -1},
		&cfgerrors.PreflightSuccessStatusOutOfBoundsError{Value: 300, Default: 204, Min: 200, Max: 299},
		&cfgerrors.IncompatibleOriginPatternError{Value: "*", Reason: "pna"},
		new(cfgerrors.IncompatiblePrivateNetworkAccessModesError),
		new(cfgerrors.IncompatibleWildcardResponseHeaderNameError),
		&foreignErr{1}, &foreignErr{2}, errors.New("plain"),
		&cfgerrors.UnacceptableOriginPatternError{Value: "x", Reason: "invalid"}, // equal to #0 but a different pointer
		// leaves that WRAP something (single %w): they do not implement Unwrap() []error, so they are leaves
		fmt.Errorf("tenant acme: %w", errors.New("inner")),
		fmt.Errorf("tenant acme: %w", errors.Join(errors.New("j1"), &cfgerrors.UnacceptableMethodError{Value: "TRACK", Reason: "forbidden"})),
		fmt.Errorf("outer: %w", fmt.Errorf("middle: %w", errors.Join(errors.New("deep")))),
	}
}

func (n ENode) build(pool []error, fresh bool, ctr *int) error {
	if len(n.Kids) == 0 {
		if fresh {
			*ctr++
			return &foreignErr{1000 + *ctr}
		}
		return pool[n.Leaf%len(pool)]
	}
	kids := make([]error, len(n.Kids))
	for i, k := range n.Kids {
		kids[i] = k.build(pool, fresh, ctr)
	}
	return errors.Join(kids...)
}

func (n ENode) leaves() int {
	if len(n.Kids) == 0 {
		return 1
	}
	s := 0
	for _, k := range n.Kids {
		s += k.leaves()
	}
	return s
}

func (n ENode) depth() int {
	d := 0
	for _, k := range n.Kids {
		if kd := k.depth() + 1; kd > d {
			d = kd
		}
	}
	return d
}

// flatten is the independent reference: recursion on Unwrap() []error.
func flatten(err error, out *[]error) {
	if j, ok := err.(interface{ Unwrap() []error }); ok {
		for _, e := range j.Unwrap() {
			flatten(e, out)
		}
		return
	}
	*out = append(*out, err)
}

// genENode draws a join tree under a node budget (so that deep and wide
// shapes stay cheap): when the budget runs out, remaining nodes are leaves.
func genENode(t *rapid.T, depth int, budget *int) ENode {
	*budget--
	if depth == 0 || *budget <= 0 || chance(t, "leaf", 35) {
		return ENode{Leaf: uniform(t, "leafidx", 15)}
	}
	n := ENode{}
	k := pick(t, "fanout", []int{1, 1, 2, 2, 3, 4, 5, 7, 9, 13})
	for i := 0; i < k; i++ {
		n.Kids = append(n.Kids, genENode(t, depth-1, budget))
	}
	return n
}

func c19Gen(t *rapid.T) C19Case {
	if chance(t, "fromcfg", 25) {
		cfg := genAtomCfg(t, mixMany)
		return C19Case{Cfg: &cfg, Break: intIn(t, "break", -1, 6)}
	}
	budget := pick(t, "budget", []int{8, 30, 30, 120, 300})
	tree := genENode(t, pick(t, "depth", []int{0, 1, 2, 3, 4, 5, 6, 8, 11}), &budget)
	n := tree.leaves()
	return C19Case{Tree: tree, Break: intIn(t, "break", -1, n)}
}

// multisetSub reports whether every element of sub occurs in super at least
// as often (by identity).
func multisetSub(sub, super []error) bool {
	count := map[error]int{}
	for _, e := range super {
		count[e]++
	}
	for _, e := range sub {
		count[e]--
		if count[e] < 0 {
			return false
		}
	}
	return true
}

// c19CheckErr runs both halves of the oracle on one error value.
func c19CheckErr(err error, brk int, desc string, rec *Recorder) *Disc {
	var want []error
	flatten(err, &want)
	// (a) full iteration: exactly the leaves, each position once
	var got []error
	for e := range cfgerrors.All(err) {
		got = append(got, e)
	}
	rec.Eval(1)
	if len(got) != len(want) || !multisetSub(got, want) || !multisetSub(want, got) {
		return discf("%s: All yielded %d errors %v; the tree has %d leaves %v", desc, len(got), got, len(want), want)
	}
	if brk < 0 {
		return nil
	}
	// (b) early exit, driving the iterator by hand: after yield returned
	// false it must not be called again
	var seen []error
	calls, stopped, after := 0, false, 0
	cfgerrors.All(err)(func(e error) bool {
		if stopped {
			after++
			return false
		}
		calls++
		seen = append(seen, e)
		if calls > brk {
			stopped = true
			return false
		}
		return true
	})
	rec.Eval(1)
	wantCalls := brk + 1
	if wantCalls > len(want) {
		wantCalls = len(want)
	}
	if after > 0 {
		return discf("%s: consumer stopped after item %d but yield was called %d more time(s)", desc, brk, after)
	}
	if calls != wantCalls || !multisetSub(seen, want) {
		return discf("%s: break after item %d: %d items yielded (%v), want %d of %v", desc, brk, calls, seen, wantCalls, want)
	}
	// (c) the same with a range-over-func loop and break (the runtime panics
	// if the iterator keeps going)
	n := 0
	for range cfgerrors.All(err) {
		n++
		if n > brk {
			break
		}
	}
	if n != wantCalls {
		return discf("%s: range loop with break after item %d ran %d iterations, want %d", desc, brk, n, wantCalls)
	}
	// (d) the value All returns describes err's leaves, it is not a one-shot cursor: ranging over the SAME
	// value again, after a complete pass and after an interrupted one, yields exactly the leaves each time
	seq := cfgerrors.All(err)
	for pass := 0; pass < 3; pass++ {
		var again []error
		k := 0
		for e := range seq {
			again = append(again, e)
			k++
			if pass == 1 && k > brk {
				break // interrupt the second pass
			}
		}
		rec.Eval(1)
		if pass == 1 {
			continue
		}
		if len(again) != len(want) || !multisetSub(again, want) || !multisetSub(want, again) {
			return discf("%s: ranging over the same All(err) value again (pass %d, pass 1 was interrupted after item %d) yielded %d errors %v; the tree has %d leaves %v", desc, pass, brk, len(again), again, len(want), want)
		}
	}
	return nil
}

func c19Check(c C19Case, rec *Recorder) *Disc {
	if c.Cfg != nil {
		exp, ok := Violations(*c.Cfg)
		_, err := cors.NewMiddleware(c.Cfg.Cors())
		if !ok || err == nil {
			return nil
		}
		n := 0
		for range cfgerrors.All(err) {
			n++
		}
		rec.Eval(1)
		rec.Class("from-config")
		if n != len(exp) {
			return discf("cfg %+v: All yields %d errors but the configuration contains %d individual violations %v", *c.Cfg, n, len(exp), exp)
		}
		if n >= 2 {
			rec.NonTrivialHash(h64(fmt.Sprintf("%+v|%d", *c.Cfg, c.Break)))
		}
		if d := c19CheckErr(err, c.Break, fmt.Sprintf("error returned for cfg %+v", *c.Cfg), rec); d != nil {
			return d
		}
		// "errors returned by NewMiddleware or Reconfigure": the same count for Reconfigure on a zero value and on a
		// middleware that is configured already (debug on or off)
		live, lerr := cors.NewMiddleware(cors.Config{Origins: []string{"https://live.example"}, Methods: []string{"PUT"}})
		if lerr != nil {
			return nil
		}
		live.SetDebug(c.Break%2 == 0)
		for i, m := range []*cors.Middleware{new(cors.Middleware), live} {
			x := c.Cfg.Cors()
			rerr := m.Reconfigure(&x)
			what := []string{"Reconfigure on a zero value", "Reconfigure on a configured middleware"}[i]
			if rerr == nil {
				return discf("cfg %+v: %s accepts what NewMiddleware rejects", *c.Cfg, what)
			}
			k := 0
			for range cfgerrors.All(rerr) {
				k++
			}
			if k != len(exp) {
				return discf("cfg %+v: %s: All yields %d errors but the configuration contains %d individual violations %v: %v", *c.Cfg, what, k, len(exp), exp, rerr)
			}
			if d := c19CheckErr(rerr, c.Break, fmt.Sprintf("error returned by %s for cfg %+v", what, *c.Cfg), rec); d != nil {
				return d
			}
		}
		return nil
	}
	pool := newLeafPool()
	ctr := 0
	err := c.Tree.build(pool, false, &ctr)
	desc := fmt.Sprintf("tree %+v", c.Tree)
	rec.Class(fmt.Sprintf("depth-%d", min(c.Tree.depth(), 4)))
	if c.Tree.depth() >= 2 && c.Break >= 0 && c.Break < c.Tree.leaves()-1 {
		rec.NonTrivialHash(h64(desc, fmt.Sprint(c.Break)))
		rec.Class("break-inside-nested-join")
	}
	return c19CheckErr(err, c.Break, desc, rec)
}

func c19Prop() Prop[C19Case] {
	return Prop[C19Case]{ID: "C19", Gen: c19Gen, Check: c19Check,
		Rule: "generator: join trees built recursively with errors.Join (depth up to 11, fan-out up to 13, node budget up to 300, joins of one, nested joins, the same leaf pointer at several positions, equal-but-distinct leaves) from non-nil leaves (the eight cfgerrors types, foreign errors, and single-%w wrappers of plain errors and of joins - which are leaves, not joins) x break position in [-1, leaves]; " +
			"25% of cases instead use the errors returned by NewMiddleware, by Reconfigure on a zero value and by Reconfigure on a configured middleware for a many-violation configuration. Oracle: full iteration yields exactly the leaves as a multiset by identity (order is documented as unspecified); " +
			"with a consumer that stops after k items: exactly k+1 calls to yield, none afterwards (hand-driven iterator and range+break); the SAME value returned by one All call, ranged over three times (the second time interrupted), yields exactly the leaves on every complete pass; for configuration errors: count == number of individual violations. " +
			"non-trivial = depth >= 2 with the break strictly before the last leaf, or a configuration error with >= 2 leaves; distinct by (tree, break).",
		Assumptions: []string{"All(nil), multi-%w wrappers (which implement Unwrap() []error themselves) and errors.Join() of nothing are outside the documented contract and not generated"}}
}

func TestC19(t *testing.T) { c19Prop().Run(t) }

func FuzzC19(f *testing.F) { FuzzProp(f, c19Prop()) }

// ---------------------------------------------------------------------------
// exhaustive: every ordered tree with at most N nodes x every break position

func allTrees(n int, memo map[int][]ENode) []ENode {
	if v, ok := memo[n]; ok {
		return v
	}
	var out []ENode
	if n == 1 {
		out = []ENode{{}}
	} else {
		for _, f := range allForests(n-1, memo) {
			out = append(out, ENode{Kids: f})
		}
	}
	memo[n] = out
	return out
}

func allForests(n int, memo map[int][]ENode) [][]ENode {
	if n == 0 {
		return [][]ENode{nil}
	}
	var out [][]ENode
	for first := 1; first <= n; first++ {
		for _, t := range allTrees(first, memo) {
			for _, rest := range allForests(n-first, memo) {
				out = append(out, append([]ENode{t}, rest...))
			}
		}
	}
	return out
}

func TestC19Exhaustive(t *testing.T) {
	rec := NewRecorder("C19", "exhaustive")
	maxNodes := envInt("VERIF_C19_NODES", 10)
	rule := fmt.Sprintf("exhaustive: every ordered rooted tree with at most %d nodes (childless node = leaf, other node = errors.Join of its children; includes joins of one and arbitrarily nested joins) x every break position in [-1, leaves], with all-distinct leaves and with one shared leaf pointer", maxNodes)
	defer func() { rec.Flush(rule, nil, 0) }()
	memo := map[int][]ENode{}
	pool := newLeafPool()
	shared := []error{pool[0]}
	var first *Disc
	var fc C19Case
	for n := 1; n <= maxNodes && first == nil; n++ {
		for _, tr := range allTrees(n, memo) {
			leaves := tr.leaves()
			for brk := -1; brk <= leaves; brk++ {
				for variant := 0; variant < 2; variant++ {
					ctr := 0
					var err error
					if variant == 0 {
						err = tr.build(nil, true, &ctr)
					} else {
						err = tr.build(shared, false, &ctr)
					}
					d := safely(func() *Disc { return c19CheckErr(err, brk, fmt.Sprintf("tree %+v (variant %d)", tr, variant), rec) })
					if d != nil && first == nil {
						first, fc = d, C19Case{Tree: tr, Break: brk}
					}
				}
				rec.mu.Lock()
				rec.cases++
				rec.mu.Unlock()
				if tr.depth() >= 2 && brk >= 0 && brk < leaves-1 {
					rec.NonTrivialHash(h64(fmt.Sprintf("%+v|%d", tr, brk)))
				}
			}
		}
	}
	rec.Exhaust = true
	rec.AddSample(C19Case{Tree: allTrees(5, memo)[3], Break: 1})
	rec.AddSample(C19Case{Tree: allTrees(7, memo)[40], Break: 2})
	if first != nil {
		rec.violation++
		path := writeReplay("C19", "rapid", fc, first)
		reportViolation("C19", path, first)
		t.FailNow()
	}
}
