package harness

import (
	"fmt"
	"net/netip"
	"sort"
	"strconv"
	"strings"

	"pgregory.net/rapid"
)

// Tiny label alphabet: many hosts share byte suffixes that are NOT label
// boundaries (com / xcom / om / m, ab / b, ...), the precondition of
// GHSA-vhxv-fg4m-p2w8.
var tinyLabels = []string{"a", "b", "ab", "ba", "aa", "bb", "com", "om", "m", "xcom", "co", "c", "a-b", "a1", "b2b"}

// labels allowed in front only (they start with a digit, which in last
// position would make the host look like an IPv4 address)
var tinyFrontOnly = []string{"1a", "1", "2b"}

var tinySchemes = []string{"http", "https", "htt", "h", "ttp", "http2", "x-http", "http+x", "a", "ws"}

var tinyIPv4 = []string{"127.0.0.1", "127.0.0.11", "27.0.0.1", "10.0.0.1", "1.1.1.1", "11.1.1.1", "1.1.1.11", "192.168.1.1"}
var tinyIPv6 = []string{"[::1]", "[::11]", "[1::1]", "[2001:db8::1]", "[::]", "[fe80::1]", "[2001:db8::11]"}

var tinyPorts = []string{"", "", "*", "1", "8", "80", "443", "808", "8080", "8081", "65535", "6553"}

func defaultPort(scheme, port string) bool {
	return scheme == "http" && port == "80" || scheme == "https" && port == "443"
}

// uniform draws an integer in [0, n) from fair coin flips. rapid's IntRange
// and SampledFrom are deliberately biased towards small values (IntRange(0,99)
// lands below 10 in 43% of draws), which would distort every weight in the
// generators; single bits are unbiased and still shrink towards 0.
func uniform(t *rapid.T, label string, n int) int {
	if n <= 1 {
		return 0
	}
	bits := 0
	for 1<<bits < n {
		bits++
	}
	bits += 3 // extra bits keep the modulo bias below 1/8 of a bucket
	u := 0
	for i := 0; i < bits; i++ {
		u <<= 1
		if rapid.Bool().Draw(t, label) {
			u |= 1
		}
	}
	return u % n
}

func pick[T any](t *rapid.T, label string, xs []T) T {
	return xs[uniform(t, label, len(xs))]
}

func chance(t *rapid.T, label string, pct int) bool {
	return uniform(t, label, 100) < pct
}

// listLen draws a list length: usually within [lo, hi], occasionally (about one case in ten) much
// larger, because nothing in the library bounds list sizes and a defect may sit behind a count threshold.
func listLen(t *rapid.T, label string, lo, hi int) int {
	if chance(t, label+"_big", 10) {
		return pick(t, label+"_bign", []int{hi + 1, 2*hi + 1, 9, 12, 17, 24, 33})
	}
	return lo + uniform(t, label, hi-lo+1)
}

// intIn draws uniformly from [lo, hi] (small ranges only).
func intIn(t *rapid.T, label string, lo, hi int) int {
	return lo + uniform(t, label, hi-lo+1)
}

// genTinyDomain draws a domain of 1..4 labels over the tiny alphabet.
func genTinyDomain(t *rapid.T, label string) string {
	n := rapid.IntRange(1, 4).Draw(t, label+"_n")
	parts := make([]string, n)
	for i := range parts {
		if i < n-1 && chance(t, label+"_digit", 10) {
			parts[i] = pick(t, label+"_l", tinyFrontOnly)
		} else {
			parts[i] = pick(t, label+"_l", tinyLabels)
		}
	}
	return strings.Join(parts, ".")
}

// ldhLabel draws a letter-digit-hyphen label of exactly n bytes (1..63) that
// starts with a letter, ends with an alphanumeric and has no hyphen in
// positions 3-4 (to stay clear of the xn-- grey zone).
func ldhLabel(t *rapid.T, label string, n int) string {
	const alnum = "abcdefghijklmnopqrstuvwxyz0123456789"
	b := make([]byte, n)
	for i := range b {
		switch {
		case i == 0:
			b[i] = alnum[rapid.IntRange(0, 25).Draw(t, label)]
		case i == n-1 || i == 2 || i == 3:
			b[i] = alnum[rapid.IntRange(0, 35).Draw(t, label)]
		default:
			k := rapid.IntRange(0, 39).Draw(t, label)
			if k >= 36 {
				if b[i-1] == '-' {
					b[i] = 'x'
				} else {
					b[i] = '-'
				}
			} else {
				b[i] = alnum[k]
			}
		}
	}
	return string(b)
}

// genDomainOfLen draws a valid domain (no trailing dot) of exactly n bytes,
// 1 <= n <= 253, made of labels of at most 63 bytes.
func genDomainOfLen(t *rapid.T, label string, n int) string {
	var parts []string
	remaining := n
	for remaining > 0 {
		maxL := 63
		if remaining < maxL {
			maxL = remaining
		}
		l := maxL
		if remaining > 64 || chance(t, label+"_short", 50) {
			l = rapid.IntRange(1, maxL).Draw(t, label+"_len")
		}
		// a label of length l uses l bytes plus a dot unless it is the last;
		// avoid leaving exactly 1 byte (which could only be a dot)
		if remaining-l == 1 {
			if l > 1 {
				l--
			} else {
				l = remaining
				if l > 63 {
					l = 63
				}
			}
		}
		parts = append(parts, ldhLabel(t, label+"_b", l))
		remaining -= l
		if remaining > 0 {
			remaining-- // dot
		}
	}
	return strings.Join(parts, ".")
}

// genPat draws one valid origin pattern. bases is a small pool of hosts the
// patterns of one list are derived from so that they interact.
func genPat(t *rapid.T, bases []string) Pat {
	var p Pat
	p.Scheme = pick(t, "scheme", tinySchemes)
	kind := rapid.IntRange(0, 99).Draw(t, "hostkind")
	switch {
	case kind < 10 && p.Scheme != "https":
		p.Host = pick(t, "ipv4", tinyIPv4)
	case kind < 20 && p.Scheme != "https":
		p.Host = pick(t, "ipv6", tinyIPv6)
	default:
		base := pick(t, "base", bases)
		switch rapid.IntRange(0, 5).Draw(t, "derive") {
		case 0, 1:
			p.Host = base
		case 2:
			p.Host = pick(t, "sub", tinyLabels) + "." + base
		case 3:
			// drop the first label when there is more than one
			if i := strings.IndexByte(base, '.'); i >= 0 {
				p.Host = base[i+1:]
			} else {
				p.Host = base
			}
		case 4:
			// replace the last label by one sharing a byte suffix
			i := strings.LastIndexByte(base, '.')
			p.Host = base[:i+1] + pick(t, "tld", tinyLabels)
		default:
			p.Host = genTinyDomain(t, "fresh")
		}
		p.Wild = chance(t, "wild", 45)
		if chance(t, "dot", 8) {
			p.Host += "."
		}
	}
	p.Port = pick(t, "port", tinyPorts)
	if defaultPort(p.Scheme, p.Port) {
		p.Port = ""
	}
	return p
}

// genPatList draws 1..6 patterns derived from a shared pool of base hosts.
func genPatList(t *rapid.T) []Pat {
	nb := rapid.IntRange(1, 3).Draw(t, "nbases")
	bases := make([]string, nb)
	for i := range bases {
		bases[i] = genTinyDomain(t, "basehost")
	}
	n := listLen(t, "npats", 1, 6)
	out := make([]Pat, n)
	for i := range out {
		out[i] = genPat(t, bases)
	}
	return out
}

// genWidePatList draws MANY patterns (9-260) around one base host, so that the structures behind the allow-list
// grow wide or deep: siblings that differ in the byte next to a shared suffix (fan-out of up to 36 and beyond),
// many ports on one host, many schemes on one host, or a chain of ever deeper subdomains.
func genWidePatList(t *rapid.T) []Pat {
	base := genTinyDomain(t, "widebase")
	kind := uniform(t, "widekind", 4)
	n := pick(t, "widen", []int{9, 12, 17, 20, 33, 36, 40, 65, 70})
	if kind < 2 && chance(t, "widehuge", 12) {
		n = pick(t, "widehugen", []int{130, 257, 260})
	}
	const letters = "abcdefghijklmnopqrstuvwxyz"
	const alnum = letters + "0123456789"
	scheme := pick(t, "widescheme", []string{"http", "https", "ws"})
	withDot := chance(t, "widedot", 50)
	out := make([]Pat, 0, n)
	for i := 0; i < n; i++ {
		p := Pat{Scheme: scheme, Host: base, Port: pick(t, "wideport", []string{"", "", "8080", "*"})}
		switch kind {
		case 0:
			if withDot {
				c := string(alnum[i%36])
				if i >= 36 {
					c = string(letters[(i/36)%26]) + c
				}
				p.Host = c + "." + base
			} else {
				c := string(letters[i%26])
				if i >= 26 {
					c = string(letters[(i/26)%26]) + c
				}
				p.Host = c + base
			}
		case 1:
			p.Port = strconv.Itoa(1000 + 7*i)
		case 2:
			p.Scheme = "s" + strconv.Itoa(i) + pick(t, "widesfx", []string{"", "+x", "-y", ".z"})
		default:
			p.Host = strings.Repeat("a.", i%40) + base
			if i >= 40 {
				p.Host = strings.Repeat("b.", i%40+1) + base
			}
		}
		p.Wild = kind != 3 && chance(t, "widewild", 25)
		if defaultPort(p.Scheme, p.Port) {
			p.Port = ""
		}
		out = append(out, p)
	}
	// "splitters": hosts that share only PART of what the many have in common (the bare base, the base cut inside
	// its first label, a host that merely ends like the base); wherever they land in the list, the structure built
	// for the many has to be split or extended at that point
	if chance(t, "splitapex", 70) {
		out = append(out, Pat{Scheme: scheme, Host: base, Port: pick(t, "splitport", []string{"", "8080", "*"})})
	}
	if len(base) > 2 && isLower(base[1]) && chance(t, "splitcut", 40) {
		out = append(out, Pat{Scheme: scheme, Host: base[1:]})
	}
	if chance(t, "splitext", 40) {
		out = append(out, Pat{Scheme: scheme, Host: "zz" + base, Wild: chance(t, "splitextwild", 30)})
	}
	if i := strings.LastIndexByte(base, '.'); i > 0 && chance(t, "splittld", 30) {
		out = append(out, Pat{Scheme: scheme, Host: "other" + base[i:]})
	}
	return rapid.Permutation(out).Draw(t, "wideperm")
}

// genLongPatList draws patterns whose hosts are long (up to 253 bytes, plus
// trailing dot) and share long suffixes.
func genLongPatList(t *rapid.T) []Pat {
	total := pick(t, "longlen", []int{253, 253, 252, 251, 250, 200, 128, 64})
	base := genDomainOfLen(t, "long", total)
	n := rapid.IntRange(1, 4).Draw(t, "npats")
	out := make([]Pat, 0, n+1)
	if total >= 250 && chance(t, "allmax", 40) {
		// every maximum at once: 64-byte scheme, longest host plus trailing dot, 5-digit port
		out = append(out, Pat{Scheme: pick(t, "maxscheme", []string{strings.Repeat("s", 64), "a" + strings.Repeat("b", 62) + "c"}), Host: base + ".",
			Port: pick(t, "maxport", []string{"65535", "12345", "10000"})})
	}
	for i := 0; i < n; i++ {
		var p Pat
		p.Scheme = pick(t, "scheme", []string{"http", "https", strings.Repeat("s", 64), "a" + strings.Repeat("b", 62) + "c"})
		h := base
		switch rapid.IntRange(0, 3).Draw(t, "derive") {
		case 1:
			// cut some labels from the front
			cut := rapid.IntRange(1, 3).Draw(t, "cut")
			for j := 0; j < cut; j++ {
				if k := strings.IndexByte(h, '.'); k >= 0 {
					h = h[k+1:]
				}
			}
		case 2:
			// cut the front in the middle of a label (keeps a valid start)
			k := rapid.IntRange(0, len(h)/2).Draw(t, "cutbytes")
			for k < len(h) && !isLower(h[k]) {
				k++
			}
			if k < len(h)-1 {
				h = h[k:]
			}
		}
		p.Host = h
		p.Wild = chance(t, "wild", 40)
		if p.Wild && len(p.Host) > 251 {
			// "*." needs room for at least "a."
			if k := strings.IndexByte(p.Host, '.'); k >= 0 && k+1 < len(p.Host) {
				p.Host = p.Host[k+1:]
			}
			if len(p.Host) > 251 {
				p.Wild = false
			}
		}
		if chance(t, "dot", 30) && !(p.Wild && len(p.Host) > 250) {
			p.Host += "."
		}
		p.Port = pick(t, "port", []string{"", "*", "1", "65535", "8080", "6553"})
		if defaultPort(p.Scheme, p.Port) {
			p.Port = ""
		}
		out = append(out, p)
	}
	return out
}

func patStrings(ps []Pat) []Str {
	out := make([]Str, len(ps))
	for i, p := range ps {
		out[i] = Str(p.String())
	}
	return out
}

// ---------------------------------------------------------------------------
// near-miss probes

var probeFront = []string{"a", "b", "ab", "x", "com", "a.b", "b.a.a", "-", "a_b", "1", "xcom", "m"}

func hostNearMisses(p Pat) []string {
	h := p.Host
	set := map[string]struct{}{h: {}}
	add := func(s string) { set[s] = struct{}{} }
	if ip, err := netip.ParseAddr(strings.TrimSuffix(strings.TrimPrefix(h, "["), "]")); err == nil {
		// the same address in other textual forms (IPv4-mapped, expanded, decimal, hex, short, zoned ...)
		for _, f := range ipRespellings(ip) {
			add(f)
		}
	}
	if strings.HasPrefix(h, "[") {
		inner := h[1 : len(h)-1]
		add("[" + inner + "1]")
		add("[1" + inner + "]")
		if len(inner) > 2 {
			add("[" + inner[:len(inner)-1] + "]")
			add("[" + inner[1:] + "]")
		}
		add("[::2]")
		return keys(set)
	}
	for _, f := range probeFront {
		add(f + "." + h) // deeper subdomain
		add(f + h)       // extended on the left without a dot
	}
	add("a.b.c." + h)
	for k := 1; k <= 3 && k < len(h); k++ {
		add(h[k:]) // truncated on the left
	}
	for k := 1; k <= 2 && k < len(h); k++ {
		add(h[:len(h)-k]) // truncated on the right
	}
	if i := strings.IndexByte(h, '.'); i >= 0 && i+1 < len(h) {
		add(h[i+1:]) // shallower
		for _, f := range []string{"a", "xcom", "b"} {
			add(f + h[i:]) // sibling
		}
	}
	if i := strings.LastIndexByte(strings.TrimSuffix(h, "."), '.'); i >= 0 {
		add(h[:i]) // last label dropped
	}
	if strings.HasSuffix(h, ".") {
		add(strings.TrimSuffix(h, "."))
		add("a." + strings.TrimSuffix(h, "."))
	} else {
		add(h + ".")
		add("a." + h + ".")
	}
	add(h + "m")
	add(h + ".a")
	// the host as the tail of a much longer one: lengths around 2^8 in front of it (the whole Origin stays below the
	// library's overall cap, the host exceeds the 253 bytes a pattern may have)
	if len(h) <= 56 {
		for _, k := range []int{255, 256, 257} {
			add(padLabels(k) + h)
			add(padLabels(k-len(h)) + h) // total length k
			if !strings.HasSuffix(h, ".") {
				add(h + padLabelsAfter(k)) // ... and as the head of a much longer one
				add(h + padLabelsAfter(k-len(h)))
			}
		}
	}
	return keys(set)
}

// padLabels returns exactly k bytes (k >= 2) of DNS labels, each followed by a dot: a prefix that turns a host into
// one of its (very deep, very long) subdomains.
func padLabels(k int) string {
	var b strings.Builder
	for k > 0 {
		l := k - 1
		if l > 63 {
			l = 63
		}
		if rest := k - l - 1; rest == 1 {
			l--
		}
		b.WriteString(strings.Repeat("p", l))
		b.WriteByte('.')
		k -= l + 1
	}
	return b.String()
}

// padLabelsAfter is padLabels for the other end: exactly k bytes of labels, each PRECEDED by a dot.
func padLabelsAfter(k int) string {
	b := []byte(padLabels(k))
	for i, j := 0, len(b)-1; i < j; i, j = i+1, j-1 {
		b[i], b[j] = b[j], b[i]
	}
	return string(b)
}

func keys(m map[string]struct{}) []string {
	out := make([]string, 0, len(m))
	for k := range m {
		out = append(out, k)
	}
	sort.Strings(out)
	return out
}

func schemeNearMisses(s string, others []string) []string {
	set := map[string]struct{}{s: {}, s + "s": {}, "x" + s: {}, "http": {}, "https": {}}
	if len(s) > 1 {
		set[s[:len(s)-1]] = struct{}{}
		set[s[1:]] = struct{}{}
	}
	for _, o := range others {
		set[o] = struct{}{}
	}
	out := keys(set)
	res := out[:0]
	for _, x := range out {
		if x != "" && isLower(x[0]) && len(x) <= 64 {
			res = append(res, x)
		}
	}
	return res
}

func portNearMisses(p string) []string {
	set := map[string]struct{}{"": {}, "1": {}, "80": {}, "443": {}, "8080": {}, "65535": {}}
	if p != "" && p != "*" {
		set[p] = struct{}{}
		if len(p) < 5 {
			set[p+"0"] = struct{}{}
			set[p+"1"] = struct{}{}
		}
		if len(p) > 1 {
			set[p[:len(p)-1]] = struct{}{}
			set[p[1:]] = struct{}{}
		}
	}
	out := keys(set)
	res := out[:0]
	for _, x := range out {
		if x == "" || portOK(x) {
			res = append(res, x)
		}
	}
	return res
}

func originString(scheme, host, port string) string {
	if port == "" {
		return scheme + "://" + host
	}
	return scheme + "://" + host + ":" + port
}

// NearMissProbes returns the well-formed near-miss origins of every pattern
// in the list (deduplicated, sorted).
func NearMissProbes(ps []Pat) []string {
	var schemes []string
	for _, p := range ps {
		schemes = append(schemes, p.Scheme)
	}
	set := map[string]struct{}{}
	add := func(s string) {
		if _, ok := SplitOrigin(s); ok {
			set[s] = struct{}{}
		}
	}
	for _, p := range ps {
		hosts := hostNearMisses(p)
		ss := schemeNearMisses(p.Scheme, schemes)
		pp := portNearMisses(p.Port)
		same := p.Port
		if same == "*" {
			same = "8080"
		}
		sub := "a." + p.Host
		if strings.HasPrefix(p.Host, "[") {
			sub = p.Host
		}
		for _, h := range hosts {
			add(originString(p.Scheme, h, same))
			add(originString(p.Scheme, h, ""))
			add(originString(p.Scheme, h, "1"))
		}
		for _, s := range ss {
			add(originString(s, p.Host, same))
			add(originString(s, sub, same))
		}
		for _, q := range pp {
			add(originString(p.Scheme, p.Host, q))
			add(originString(p.Scheme, sub, q))
		}
	}
	return keys(set)
}

// hostLenOK: the host is within the documented length limit (253 bytes, not
// counting a trailing dot); longer hosts are not judged.
func hostLenOK(o string) bool {
	og, ok := SplitOrigin(o)
	if !ok {
		return false
	}
	return len(strings.TrimSuffix(og.Host, ".")) <= 253 && len(og.Scheme) <= 64
}

// genIPv4 / genIPv6 draw canonical IP literals via net/netip.
func genIPv4(t *rapid.T, loopback bool) string {
	var b [4]byte
	for i := range b {
		b[i] = byte(rapid.IntRange(0, 255).Draw(t, "octet"))
	}
	if loopback {
		b[0] = 127
	} else if b[0] == 127 {
		b[0] = 128
	}
	return netip.AddrFrom4(b).String()
}

func genIPv6(t *rapid.T, loopback bool) string {
	if loopback {
		return "[::1]"
	}
	var b [16]byte
	for i := 0; i < 16; i += 2 {
		switch rapid.IntRange(0, 3).Draw(t, "group") {
		case 0, 1: // zero group (creates runs to compress)
		case 2:
			b[i+1] = byte(rapid.IntRange(0, 255).Draw(t, "lo"))
		default:
			b[i] = byte(rapid.IntRange(0, 255).Draw(t, "hi"))
			b[i+1] = byte(rapid.IntRange(0, 255).Draw(t, "lo"))
		}
	}
	a := netip.AddrFrom16(b)
	if a.Is4In6() || a.IsLoopback() {
		b[0] = 0x20
		b[1] = 0x01
		a = netip.AddrFrom16(b)
	}
	return fmt.Sprintf("[%s]", a.String())
}
