package harness

import (
	"fmt"
	"net/http"
	"net/url"
	"sort"
	"strconv"
	"strings"
	"testing"

	"pgregory.net/rapid"
)

// C18: per-request allocations do not grow with attacker-controlled sizes.

var c18Cfgs = map[string]Cfg{
	"allow-all":                 {Origins: SS("*"), Methods: SS("PUT"), RequestHeaders: SS("X-Foo", "X-Bar"), ResponseHeaders: SS("X-Resp"), MaxAge: 30},
	"discrete":                  {Origins: SS("https://example.com", "https://*.example.com:*"), Methods: SS("PUT"), RequestHeaders: SS("X-Foo", "X-Bar", "Authorization"), ResponseHeaders: SS("X-Resp")},
	"discrete-credentialed":     {Origins: SS("https://example.com", "https://*.example.com:*"), Credentialed: true, Methods: SS("PUT", "DELETE"), RequestHeaders: SS("X-Foo", "X-Bar"), MaxAge: 600, PNA: true},
	"star-headers-anon":         {Origins: SS("https://example.com"), Methods: SS("*"), RequestHeaders: SS("*")},
	"star-headers-anon-auth":    {Origins: SS("https://example.com"), Methods: SS("*"), RequestHeaders: SS("*", "Authorization")},
	"star-headers-credentialed": {Origins: SS("https://example.com"), Credentialed: true, Methods: SS("*"), RequestHeaders: SS("*"), Status: 200},
	"no-headers-configured":     {Origins: SS("https://example.com"), Methods: SS("PUT")},
	"pna-nocors":                {Origins: SS("https://example.com"), PNANoCORS: true, RequestHeaders: SS("X-Foo")},
	"discrete-many-headers":     {Origins: SS("https://example.com", "https://*.example.com:*"), Methods: SS("PUT"), RequestHeaders: c18ManyNames(), ResponseHeaders: SS("X-Resp")},
}

// 40 allowed request-header names, x-foo and x-bar among them
func c18ManyNames() []Str {
	out := SS("X-Foo", "X-Bar")
	for i := 0; i < 38; i++ {
		out = append(out, Str(fmt.Sprintf("X-Many-%02d", i)))
	}
	return out
}

var c18CfgKinds = []string{"discrete-many-headers", "allow-all", "discrete", "discrete-credentialed", "star-headers-anon", "star-headers-anon-auth", "star-headers-credentialed", "no-headers-configured", "pna-nocors"}

var c18Shapes = []string{"actual-get-allowed", "actual-get-disallowed", "actual-options", "non-cors-get", "preflight-ok", "preflight-bad-origin", "preflight-acrpn", "preflight-bad-method", "preflight-bad-headers"}

var c18Fields = []string{"origin-length", "origin-labels", "origin-punycode-labels", "origin-values", "acrm-length", "acrh-line-length", "acrh-junk-length", "acrh-elements", "acrh-empty-elements", "acrh-lines", "acrh-list-lines", "acrh-ows-lines", "acrh-ows", "acrpn-values", "acrpn-length", "other-header-values",
	"acrm-values", "other-header-count", "target-length", "method-length", "host-length", "acrh-distinct-elements"}

type C18Case struct {
	CfgKind string `json:"config_kind"`
	Debug   bool   `json:"debug"`
	Shape   string `json:"request_shape"`
	Field   string `json:"scaled_field"`
	Via     int    `json:"via,omitempty"` // history through which the middleware reaches its state; see mkMWVia
	Flavor  string `json:"flavor"`        // letter case / padding of the scaled content: lower | mixed | upper | padded
}

var c18Flavors = []string{"lower", "mixed", "upper", "padded"}

// flavour rewrites the scaled content: an implementation may only allocate
// for content that is not already in its preferred form.
func flavour(s, fl string) string {
	switch fl {
	case "mixed":
		b := []byte(s)
		up := true
		for i, c := range b {
			if c >= 'a' && c <= 'z' {
				if up {
					b[i] = c - 32
				}
				up = false
			} else {
				up = true
			}
		}
		return string(b)
	case "upper":
		return strings.ToUpper(s)
	case "padded":
		return strings.ReplaceAll(s, ",", " ,\t")
	}
	return s
}

var c18Sizes = []int{1, 100, 10_000, 1_000_000}
var c18Counts = []int{1, 100, 10_000, 100_000}

func c18Scales(field string) []int {
	switch field {
	case "origin-values", "acrh-elements", "acrh-empty-elements", "acrh-lines", "acrh-list-lines", "acrh-ows-lines", "acrpn-values", "other-header-values", "acrm-values":
		return c18Counts
	case "other-header-count":
		return []int{1, 100, 1000, 20_000}
	case "acrh-distinct-elements":
		return []int{1, 10, 40, 100_000}
	case "origin-labels":
		return []int{1, 10, 100, 100_000} // 100 labels still fit the 253-byte host limit; 100 000 do not
	case "origin-punycode-labels":
		return []int{1, 4, 16, 100_000} // 16 xn-- labels still fit the host limit
	}
	return c18Sizes
}

// c18Request builds the request of the given shape with the given field
// scaled to n (bytes or elements). Built in linear time.
func c18Request(shape, field, fl string, n int) *http.Request {
	origin := "https://example.com"
	method := "GET"
	h := http.Header{}
	pre := strings.HasPrefix(shape, "preflight")
	switch shape {
	case "actual-get-disallowed", "preflight-bad-origin":
		origin = "https://evil.example"
	case "actual-options":
		method = "OPTIONS"
	}
	if pre {
		method = "OPTIONS"
		h[hACRM] = []string{"PUT"}
		h[hACRH] = []string{"x-bar,x-foo"}
	}
	switch shape {
	case "preflight-acrpn":
		h[hACRPN] = []string{"true"}
	case "preflight-bad-method":
		h[hACRM] = []string{"UNLISTED"}
	case "preflight-bad-headers":
		h[hACRH] = []string{"x-bar,x-nope"}
	}
	if shape != "non-cors-get" {
		h[hOrigin] = []string{origin}
	}
	switch field {
	case "origin-length":
		if _, ok := h[hOrigin]; ok {
			h[hOrigin] = []string{"https://" + flavour(strings.Repeat("a", n), fl) + ".example.com"}
			if (shape == "actual-get-allowed" || shape == "preflight-ok") && fl == "lower" {
				// keep it allowed where a short value exists: sub-label of the wildcard pattern (up to the host limit)
				if n <= 200 {
					h[hOrigin] = []string{"https://" + strings.Repeat("a", min(n, 63)) + ".example.com"}
				}
			}
		}
	case "origin-labels":
		// n one-byte labels in front of the wildcard pattern's base (allowed while the host fits 253 bytes)
		if _, ok := h[hOrigin]; ok {
			h[hOrigin] = []string{"https://" + flavour(strings.Repeat("a.", n), fl) + "example.com"}
		}
	case "origin-punycode-labels":
		// n Punycode (xn--) labels, valid or not, in front of the wildcard pattern's base: IDNA processing is per label
		if _, ok := h[hOrigin]; ok {
			unit := "xn--bcher-kva."
			if fl == "mixed" || fl == "upper" {
				unit = "xn--a."
			}
			h[hOrigin] = []string{"https://" + strings.Repeat(unit, n) + "example.com"}
		}
	case "origin-values":
		if _, ok := h[hOrigin]; ok {
			vs := make([]string, n)
			for i := range vs {
				vs[i] = origin
			}
			h[hOrigin] = vs
		}
	case "acrm-length":
		unit := "M"
		if fl == "lower" || fl == "mixed" {
			unit = "m"
		}
		h[hACRM] = []string{flavour(strings.Repeat(unit, n), fl)} // ignored on non-preflight paths, still attacker-controlled
	case "acrh-line-length":
		// a long list of allowed names (each repeated: rejected by the ordering rule, reflected by * configurations)
		h[hACRH] = []string{flavour(strings.Repeat("x-bar,", n/6+1)+"x-foo", fl)}
	case "acrh-junk-length":
		h[hACRH] = []string{flavour(strings.Repeat("a", n), fl)}
	case "acrh-elements":
		h[hACRH] = []string{flavour(strings.Repeat("x-foo,", n-1)+"x-foo", fl)}
	case "acrh-empty-elements":
		h[hACRH] = []string{flavour(strings.Repeat(",", n)+"x-foo", fl)}
	case "acrh-lines":
		vs := make([]string, n)
		for i := range vs {
			vs[i] = flavour("x-foo", fl)
		}
		h[hACRH] = vs
	case "acrh-list-lines":
		// many field lines, each of them a short list (so that the padded flavour puts OWS next to a comma in EVERY line)
		vs := make([]string, n)
		for i := range vs {
			vs[i] = flavour("x-bar,x-foo", fl)
		}
		h[hACRH] = vs
	case "acrh-ows-lines":
		// many field lines, each with one OWS byte on either side of its only name
		vs := make([]string, n)
		for i := range vs {
			vs[i] = " " + flavour("x-foo", fl) + "\t"
		}
		h[hACRH] = vs
	case "acrpn-values":
		// many Access-Control-Request-Private-Network field lines (junk, true or false depending on the flavour)
		v := map[string]string{"lower": "yes", "mixed": "True", "upper": "FALSE", "padded": "true"}[fl]
		vs := make([]string, n)
		for i := range vs {
			vs[i] = v
		}
		h[hACRPN] = vs
	case "acrpn-length":
		h[hACRPN] = []string{flavour(strings.Repeat("t", n), fl)}
	case "other-header-values":
		// a header the middleware has no business reading
		vs := make([]string, n)
		for i := range vs {
			vs[i] = flavour("gzip", fl)
		}
		h["Accept-Encoding"] = vs
	case "acrh-ows":
		h[hACRH] = []string{flavour("x-bar,", fl) + strings.Repeat(" ", n) + flavour("x-foo", fl)}
	case "acrh-distinct-elements":
		// up to 40 DISTINCT names in sorted order (all of them allowed by the many-headers configuration), then repeats of the last one
		names := make([]string, 0, 40)
		for _, x := range c18ManyNames() {
			names = append(names, strings.ToLower(string(x)))
		}
		sort.Strings(names)
		list := names[:min(n, len(names))]
		v := strings.Join(list, ",")
		if n > len(names) {
			v += strings.Repeat(","+names[len(names)-1], min(n-len(names), 5000))
		}
		h[hACRH] = []string{flavour(v, fl)}
	case "acrm-values":
		// many Access-Control-Request-Method field lines (only the first one counts)
		first := "GET"
		if vs := h[hACRM]; len(vs) > 0 {
			first = vs[0]
		}
		vs := make([]string, n)
		for i := range vs {
			vs[i] = flavour("PUT", fl)
		}
		vs[0] = first
		h[hACRM] = vs
	case "other-header-count":
		// many distinct header names the middleware has no business reading
		for i := 0; i < n; i++ {
			h["X-Unrelated-"+strconv.Itoa(i)] = []string{flavour("v", fl)}
		}
	}
	req := &http.Request{Method: method, URL: rootURL, RequestURI: "/", Header: h, Proto: "HTTP/1.1", ProtoMajor: 1, ProtoMinor: 1, Host: "server.example"}
	switch field {
	case "target-length":
		path := "/" + flavour(strings.Repeat("p", n), fl)
		req.URL, req.RequestURI = &url.URL{Path: path}, path
	case "method-length":
		if method != "OPTIONS" {
			req.Method = flavour(strings.Repeat("G", n), fl) // a long non-OPTIONS method
		}
	case "host-length":
		req.Host = flavour(strings.Repeat("h", n), fl) + ".example"
	}
	return req
}

type allocRec struct {
	h      http.Header
	status int
}

func (a *allocRec) Header() http.Header         { return a.h }
func (a *allocRec) WriteHeader(c int)           { a.status = c }
func (a *allocRec) Write(p []byte) (int, error) { return len(p), nil }

var noopHandler = http.HandlerFunc(func(http.ResponseWriter, *http.Request) {})

const (
	c18Bound = 16 // the "small constant": the unchanged library needs 0-2
	c18Step  = 3
)

func c18Gen(t *rapid.T) C18Case {
	if chance(t, "hot", 40) {
		// the cells where the request-header list is actually read: a third of the quick budget goes there
		return C18Case{CfgKind: pick(t, "hotcfg", []string{"discrete-many-headers", "discrete-many-headers", "discrete", "discrete-credentialed", "star-headers-credentialed", "allow-all"}), Debug: chance(t, "hotdebug", 35),
			Shape:  pick(t, "hotshape", []string{"preflight-ok", "preflight-ok", "preflight-bad-headers", "preflight-acrpn"}),
			Field:  pick(t, "hotfield", []string{"acrh-distinct-elements", "acrh-distinct-elements", "acrh-elements", "acrh-lines", "acrh-list-lines", "acrh-ows-lines", "acrh-line-length", "acrh-empty-elements", "acrh-ows", "acrh-junk-length"}),
			Flavor: pick(t, "hotflavor", c18Flavors), Via: pick(t, "hotvia", []int{0, 0, 4, 4, 1, 2, 3, 5})}
	}
	return C18Case{CfgKind: pick(t, "cfg", c18CfgKinds), Debug: chance(t, "debug", 50), Shape: pick(t, "shape", c18Shapes), Field: pick(t, "field", c18Fields), Flavor: pick(t, "flavor", c18Flavors)}
}

func c18Check(c C18Case, rec *Recorder) *Disc {
	cfg, ok := c18Cfgs[c.CfgKind]
	if !ok {
		return nil
	}
	m, err := mkMWVia(cfg, c.Debug, c.Via)
	if err != nil {
		return discf("fixed configuration %s rejected: %v", c.CfgKind, err)
	}
	rec.Class(fmt.Sprintf("via-%d", c.Via))
	h := m.Wrap(noopHandler)
	w := &allocRec{h: make(http.Header, 8)}
	scales := c18Scales(c.Field)
	allocs := make([]float64, len(scales))
	for i, n := range scales {
		r := c18Request(c.Shape, c.Field, c.Flavor, n)
		allocs[i] = testing.AllocsPerRun(10, func() {
			clear(w.h)
			h.ServeHTTP(w, r)
		})
		rec.Eval(1)
		if n >= 10_000 {
			rec.NonTrivial(c.CfgKind, fmt.Sprint(c.Debug), c.Shape, c.Field, c.Flavor, fmt.Sprint(n))
		}
	}
	rec.Class("field:" + c.Field)
	rec.Class(fmt.Sprintf("allocs-at-largest:%d", int(allocs[len(allocs)-1])))
	for i, a := range allocs {
		if a > c18Bound {
			return discf("config %s debug=%v shape %s flavour %s: %v heap allocations per request with %s scaled to %d (bound %d); allocations by scale %v: %v", c.CfgKind, c.Debug, c.Shape, c.Flavor, a, c.Field, scales[i], c18Bound, scales, allocs)
		}
	}
	// no growth: a bounded step is tolerated (an implementation may take a cheaper path for the smallest
	// input), continued growth is not: nothing more at the largest scale than at the one before it, and at
	// most c18Step more than at the smallest
	last := len(allocs) - 1
	if allocs[last] > allocs[last-1] || allocs[last] > allocs[0]+c18Step {
		return discf("config %s debug=%v shape %s flavour %s: allocations grow with %s: %v at scales %v", c.CfgKind, c.Debug, c.Shape, c.Flavor, c.Field, allocs, scales)
	}
	return nil
}

func TestC18(t *testing.T) {
	Prop[C18Case]{ID: "C18", Gen: c18Gen, Check: c18Check,
		Rule: "generator: configuration kind in {40 discrete request-header names, allow-all, discrete, discrete+credentialed+PNA, * headers anonymous with/without Authorization, * headers credentialed, no headers configured, no-cors-only PNA} x debug x request shape in {actual allowed/disallowed, actual OPTIONS, non-CORS, preflight succeeding / failing at origin, ACRPN, method, headers} " +
			"x scaled field in {Origin length, Origin label count, Origin Punycode-label count, Origin value count, ACRM length, ACRH line length (valid names), ACRH junk length, ACRH element count, count of DISTINCT allowed names (to 40) in sorted order, ACRH empty-element count, ACRH line count (one name per line; a two-name list per line; one OWS-padded name per line), OWS run, ACRPN value count, ACRPN length, value count of an unrelated header, ACRM value count, number of distinct unrelated headers (to 20 000), request-target length, method length, Host length} x content flavour in {lower case, Mixed-Case, UPPER CASE, OWS-padded} x 4 scales (1 B..1 MiB or 1..100 000 elements). " +
			"In the quick tier's hot cells the middleware reaches its state through one of six histories documented as equivalent (e.g. Reconfigure(Config())). Oracle: testing.AllocsPerRun (10 runs, GOMAXPROCS 1, reused request, reused and cleared header map, no-op handler, race detector off) <= 16 at every scale (the unchanged library needs 0-2), not larger at the largest scale than at the one before it, and at most 3 larger than at the smallest (a bounded step is tolerated, growth is not). " +
			"evaluations = measured cells; non-trivial = cell with scale >= 10 KiB / 10 000 elements; distinct by (config kind, debug, shape, field, flavour, scale).",
		Assumptions: []string{"only the allocation COUNT is judged, as the property says; a change that allocates O(n) bytes in O(1) allocations is not flagged",
			"the response writer's header map is reused across runs, so allocations of net/http itself are not counted"}}.Run(t)
}

// TestC18Grid runs the full grid (thorough tier).
func TestC18Grid(t *testing.T) {
	rec := NewRecorder("C18", "grid")
	rule := "full grid: every configuration kind x debug x request shape x scaled field x content flavour x 4 scales (exhaustive over the finite grid of the rapid part)"
	defer func() { rec.Flush(rule, nil, 0) }()
	for _, ck := range c18CfgKinds {
		for _, dbg := range []bool{false, true} {
			for _, sh := range c18Shapes {
				for _, f := range c18Fields {
					for _, fl := range c18Flavors {
						c := C18Case{CfgKind: ck, Debug: dbg, Shape: sh, Field: f, Flavor: fl}
						rec.Case(c)
						if d := safely(func() *Disc { return c18Check(c, rec) }); d != nil {
							rec.violation++
							path := writeReplay("C18", "rapid", c, d)
							reportViolation("C18", path, d)
							t.FailNow()
						}
					}
				}
			}
		}
	}
	rec.Exhaust = true
}
