#!/bin/bash
id=$1; shift
/verif/tools/evalseed.sh $id ${id}t /tmp/wk-$id 2>&1 | grep -E "^(RESULT|CONFIRMED|NOT)"
[ -d /verif/seeded/${id}t ] && WIDTH=${WIDTH:-300} /verif/tools/withpatch.sh /verif/seeded/${id}t/patch.diff "$@"
