#!/bin/bash
id=$1; shift
/verif/tools/evalseed.sh $id ${id}h /tmp/w8-$id 2>&1 | grep -E "^(RESULT|CONFIRMED|NOT)"
[ -d /verif/seeded/${id}h ] && WIDTH=${WIDTH:-300} /verif/tools/withpatch.sh /verif/seeded/${id}h/patch.diff "$@"
