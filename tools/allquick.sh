#!/bin/bash
# allquick.sh <tier> <seed>... : run every claimed check at the given seeds; print one line per run
tier=$1; shift
cd "$(dirname "$0")/.."
ids=$(python3 -c "import json;print(' '.join(c['property_id'] for c in json.load(open('MANIFEST.json'))['checks']))")
for s in "$@"; do for p in $ids; do
  out=$(VERIF_SEED=$s ./check $p $tier 2>&1); rc=$?
  echo "seed=$s $p rc=$rc $(echo "$out" | grep -E '^(OK|VIOLATION|INCONCLUSIVE|KNOWN)' | head -2 | cut -c1-160 | tr '\n' ' ')"
done; done
