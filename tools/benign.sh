#!/bin/bash
# benign.sh [pattern] : run every quick check against each property-preserving variant in benign/*.diff (scratch worktree,
# /repo untouched; BENIGN_IDS="C05 C11" restricts the checks) and print one line per variant: SILENT, or the checks that raised an alarm or were inconclusive.
cd "$(dirname "$0")/.."
ids=${BENIGN_IDS:-$(python3 -c "import json;print(' '.join(c['property_id'] for c in json.load(open('MANIFEST.json'))['checks']))")}
for f in benign/${1:-*}.diff; do
  out=$(WIDTH=300 tools/withpatch.sh $f $ids 2>&1 | grep "check=" | grep -v "rc=0")
  if [ -z "$out" ]; then echo "SILENT $(basename $f .diff)"; else echo "ALARM $(basename $f .diff)"; echo "$out" | cut -c1-400; fi
done
