#!/bin/bash
id=$1; shift
/verif/tools/evalseed.sh $id ${id}d /tmp/w4-$id 2>&1 | grep -E "^(RESULT|CONFIRMED|NOT)"
[ -d /verif/seeded/${id}d ] && WIDTH=${WIDTH:-330} /verif/tools/withpatch.sh /verif/seeded/${id}d/patch.diff "$@"
