#!/bin/bash
id=$1; shift
/verif/tools/evalseed.sh $id ${id}l /tmp/wc-$id 2>&1 | grep -E "^(RESULT|CONFIRMED|NOT)"
[ -d /verif/seeded/${id}l ] && WIDTH=${WIDTH:-300} /verif/tools/withpatch.sh /verif/seeded/${id}l/patch.diff "$@"
