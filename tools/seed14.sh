#!/bin/bash
id=$1; shift
/verif/tools/evalseed.sh $id ${id}n /tmp/we-$id 2>&1 | grep -E "^(RESULT|CONFIRMED|NOT)"
[ -d /verif/seeded/${id}n ] && WIDTH=${WIDTH:-300} /verif/tools/withpatch.sh /verif/seeded/${id}n/patch.diff "$@"
