#!/bin/bash
id=$1; shift
/verif/tools/evalseed.sh $id ${id}c /tmp/w3-$id 2>&1 | grep -E "^(RESULT|CONFIRMED|NOT)"
[ -d /verif/seeded/${id}c ] && WIDTH=${WIDTH:-330} /verif/tools/withpatch.sh /verif/seeded/${id}c/patch.diff "$@"
