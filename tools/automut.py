#!/usr/bin/env python3
"""automut.py gen|suite|checks ...

Systematic mutation of the library's non-test source (sensitivity census, complementary to the hand-made and
sub-agent changes):

  automut.py gen   <outdir>            one-token mutants (operator flips, constant +-1, literal flips, break/continue,
                                       return true/false) of every non-test .go file of /repo -> <outdir>/NNNN.diff
  automut.py gen2  <outdir>            statement-level mutants (delete a one-line statement; force an if-condition true / false)
  automut.py suite <outdir> <k> <n>    worker k of n: for each mutant, apply it to a private scratch worktree, build,
                                       run the repository's own test suite; appends "NNNN <verdict>" to <outdir>/suite.k.txt
                                       (nobuild | killed | survived)
  automut.py checks <outdir> <k> <n>   worker k of n: for each mutant that SURVIVED the repository's suite, run every
                                       quick check against it (scratch worktree, VERIF_REPO); appends to <outdir>/checks.k.txt
                                       "NNNN caught-by=<ids>" or "NNNN MISSED"

/repo itself is never modified. Everything lives under <outdir> (outside /repo and /verif) and can be deleted afterwards.
"""
import os
import re
import subprocess
import sys

REPO = "/repo"
ENV = dict(os.environ, GOFLAGS="-mod=mod", GOPROXY="off", GOSUMDB="off", GOTOOLCHAIN="local")

FILES = ["config.go", "middleware.go", "cfgerrors/cfgerrors.go", "internal/headers/acrh.go", "internal/headers/common.go",
         "internal/headers/ows.go", "internal/headers/req.go", "internal/headers/res.go", "internal/methods/methods.go",
         "internal/origins/origins.go", "internal/origins/pattern.go", "internal/origins/radix.go", "internal/util/asciiset.go",
         "internal/util/bytecase.go", "internal/util/set.go", "internal/util/sortedset.go"]

# (regex, replacement) pairs; every match position gives one mutant
OPS = [
    (r" <= ", " < "), (r" < ", " <= "), (r" >= ", " > "), (r" > ", " >= "),
    (r" == ", " != "), (r" != ", " == "),
    (r" && ", " || "), (r" \|\| ", " && "),
    (r" \+ 1\b", " - 1"), (r" - 1\b", " + 1"), (r" \+ ", " - "), (r" - ", " + "),
    (r"\btrue\b", "false"), (r"\bfalse\b", "true"),
    (r"\bcontinue\b", "break"), (r"\bbreak\b", "continue"),
    (r"!(?=[a-zA-Z(])", ""),
    (r"\+\+", "--"),
    (r"\[:1\]", "[:2]"), (r"\[1:\]", "[2:]"), (r"\[:i\]", "[:i+1]"), (r"\[i:\]", "[i+1:]"), (r"\[i\+1:\]", "[i:]"),
]
NUM = re.compile(r"(?<![\w.\"'x])(\d+)(?![\w.\"'])")


def code_part(line):
    """the part of the line before a // comment (naive but strings with // are rare here)"""
    i = line.find("//")
    return line if i < 0 else line[:i]


def gen(outdir):
    os.makedirs(outdir, exist_ok=True)
    n = 0
    for f in FILES:
        src = open(os.path.join(REPO, f)).read().split("\n")
        in_block_comment = False
        in_const_doc = False
        for li, line in enumerate(src):
            s = line.strip()
            if s.startswith("/*"):
                in_block_comment = True
            if in_block_comment:
                if "*/" in s:
                    in_block_comment = False
                continue
            if s.startswith("//") or s.startswith("import") or s.startswith('"') or s.startswith("package"):
                continue
            code = code_part(line)
            if '"' in code or "`" in code:
                # do not mutate inside string literals: keep only the text outside quotes
                pieces = re.split(r'("(?:[^"\\]|\\.)*"|`[^`]*`)', code)
            else:
                pieces = [code]
            offset = 0
            muts = []
            for pi, piece in enumerate(pieces):
                if pi % 2 == 0:
                    for rx, rep in OPS:
                        for m in re.finditer(rx, piece):
                            muts.append((offset + m.start(), offset + m.end(), rep))
                    for m in NUM.finditer(piece):
                        v = int(m.group(1))
                        for nv in {v + 1, max(v - 1, 0)} - {v}:
                            muts.append((offset + m.start(1), offset + m.end(1), str(nv)))
                offset += len(piece)
            for a, b, rep in muts:
                new = line[:a] + rep + line[b:]
                if new == line:
                    continue
                mutated = src[:li] + [new] + src[li + 1:]
                p = os.path.join(outdir, "%04d.diff" % n)
                # build a unified diff with git's own tooling
                tmp = os.path.join(outdir, "tmp.go")
                open(tmp, "w").write("\n".join(mutated))
                r = subprocess.run(["git", "diff", "--no-index", "--", os.path.join(REPO, f), tmp], stdout=subprocess.PIPE)
                d = r.stdout.decode()
                d = d.replace("a" + os.path.join(REPO, f), "a/" + f).replace("b" + tmp, "b/" + f)
                d = re.sub(r"^diff --git .*$", "diff --git a/%s b/%s" % (f, f), d, count=1, flags=re.M)
                d = re.sub(r"^--- .*$", "--- a/" + f, d, count=1, flags=re.M)
                d = re.sub(r"^\+\+\+ .*$", "+++ b/" + f, d, count=1, flags=re.M)
                open(p, "w").write(d)
                open(os.path.join(outdir, "%04d.txt" % n), "w").write("%s:%d: %s  =>  %s\n" % (f, li + 1, line.strip(), new.strip()))
                n += 1
        try:
            os.remove(os.path.join(outdir, "tmp.go"))
        except FileNotFoundError:
            pass
    print("generated", n, "mutants in", outdir)


def write_mutant(outdir, n, f, src, li, new):
    line = src[li]
    mutated = src[:li] + ([new] if new is not None else []) + src[li + 1:]
    p = os.path.join(outdir, "%04d.diff" % n)
    tmp = os.path.join(outdir, "tmp.go")
    open(tmp, "w").write("\n".join(mutated))
    r = subprocess.run(["git", "diff", "--no-index", "--", os.path.join(REPO, f), tmp], stdout=subprocess.PIPE)
    d = r.stdout.decode()
    d = re.sub(r"^diff --git .*$", "diff --git a/%s b/%s" % (f, f), d, count=1, flags=re.M)
    d = re.sub(r"^--- .*$", "--- a/" + f, d, count=1, flags=re.M)
    d = re.sub(r"^\+\+\+ .*$", "+++ b/" + f, d, count=1, flags=re.M)
    open(p, "w").write(d)
    open(os.path.join(outdir, "%04d.txt" % n), "w").write("%s:%d: %s  =>  %s\n" % (f, li + 1, line.strip(), new.strip() if new is not None else "<deleted>"))


def gen2(outdir):
    """statement-level mutants: delete a one-line statement; force an if-condition to true / false;
    drop an else-branch's guard; replace a returned expression list's first identifier by its zero value is left
    to the compiler (nobuild) -- only the two operator families above."""
    os.makedirs(outdir, exist_ok=True)
    n = 0
    for f in FILES:
        src = open(os.path.join(REPO, f)).read().split("\n")
        in_block_comment = False
        depth_func = False
        for li, line in enumerate(src):
            s = line.strip()
            if s.startswith("/*"):
                in_block_comment = True
            if in_block_comment:
                if "*/" in s:
                    in_block_comment = False
                continue
            if line.startswith("func "):
                depth_func = True
            if line.startswith("}"):
                depth_func = False
            if not depth_func or not line.startswith("\t"):
                continue
            if not s or s.startswith("//"):
                continue
            m = re.match(r"^(\s*(?:\} else )?if )(.*) \{$", line)
            if m:
                head, cond = m.group(1), m.group(2)
                init = ""
                if "; " in cond:
                    i = cond.rfind("; ")
                    init, cond = cond[:i + 2], cond[i + 2:]
                for rep in ("true", "false"):
                    write_mutant(outdir, n, f, src, li, head + init + rep + " {")
                    n += 1
                continue
            if s.endswith("{") or s.startswith("}") or s.startswith("case ") or s.startswith("default:") or s.endswith(":") or s.endswith(","):
                continue
            if s.startswith(("var ", "const ", "type ", "func ", "defer ", "go ")) and not s.startswith(("defer ", "go ")):
                continue
            if s.endswith("(") or s.startswith((")", "]")):
                continue
            write_mutant(outdir, n, f, src, li, None)
            n += 1
        try:
            os.remove(os.path.join(outdir, "tmp.go"))
        except FileNotFoundError:
            pass
    print("generated", n, "mutants in", outdir)


def worktree(outdir, k):
    wt = os.path.join(outdir, "wt%d" % k)
    if not os.path.isdir(wt):
        subprocess.check_call(["git", "-C", REPO, "worktree", "add", "--detach", "-q", wt, "HEAD"])
    return wt


def mutants(outdir):
    return sorted(f[:-5] for f in os.listdir(outdir) if re.fullmatch(r"\d{4}\.diff", f))


def suite(outdir, k, n):
    wt = worktree(outdir, k)
    done = set()
    resf = os.path.join(outdir, "suite.%d.txt" % k)
    if os.path.exists(resf):
        done = {l.split()[0] for l in open(resf)}
    for i, m in enumerate(mutants(outdir)):
        if i % n != k or m in done:
            continue
        subprocess.check_call(["git", "-C", wt, "checkout", "-q", "--", "."])
        r = subprocess.run(["git", "-C", wt, "apply", os.path.join(outdir, m + ".diff")], stdout=subprocess.PIPE, stderr=subprocess.STDOUT)
        if r.returncode != 0:
            verdict = "noapply"
        else:
            b = subprocess.run(["go", "build", "./..."], cwd=wt, env=ENV, stdout=subprocess.PIPE, stderr=subprocess.STDOUT)
            if b.returncode != 0:
                verdict = "nobuild"
            else:
                try:
                    t = subprocess.run("go test -vet=off -count=1 ./... 2>&1", shell=True, cwd=wt, env=ENV, stdout=subprocess.PIPE, timeout=180)
                    verdict = "survived" if t.returncode == 0 else "killed"
                except subprocess.TimeoutExpired:
                    verdict = "killed-timeout"
        open(resf, "a").write("%s %s\n" % (m, verdict))
    subprocess.check_call(["git", "-C", wt, "checkout", "-q", "--", "."])


# which checks to try first, by file of the mutant
ORDER = {
    "config.go": ["C05", "C04", "C06", "C15", "C02", "C16", "C08"],
    "middleware.go": ["C16", "C09", "C11", "C02", "C10", "C03", "C07", "C17"],
    "cfgerrors": ["C19", "C05"],
    "internal/headers/acrh.go": ["C14", "C02"],
    "internal/headers/ows.go": ["C14", "C02"],
    "internal/headers": ["C05", "C04", "C11", "C17"],
    "internal/methods": ["C05", "C04", "C02"],
    "internal/origins/origins.go": ["C03", "C01", "C13", "C17"],
    "internal/origins/pattern.go": ["C13", "C05", "C04", "C01"],
    "internal/origins/radix.go": ["C01", "C06", "C12"],
    "internal/util": ["C15", "C14", "C05", "C02"],
}


def checks(outdir, k, n):
    wt = worktree(outdir, k)
    surv = []
    for f in os.listdir(outdir):
        if f.startswith("suite.") and f.endswith(".txt"):
            surv += [l.split()[0] for l in open(os.path.join(outdir, f)) if l.split()[1] == "survived"]
    surv.sort()
    resf = os.path.join(outdir, "checks.%d.txt" % k)
    done = set()
    for f in os.listdir(outdir):
        if f.startswith("checks.") and f.endswith(".txt"):  # whatever any worker has finished
            done |= {l.split()[0] for l in open(os.path.join(outdir, f)) if l.strip()}
    ids = ["C%02d" % i for i in range(1, 20)]
    verif = os.path.dirname(os.path.dirname(os.path.abspath(__file__)))
    for i, m in enumerate(surv):
        if i % n != k or m in done:
            continue
        subprocess.check_call(["git", "-C", wt, "checkout", "-q", "--", "."])
        subprocess.check_call(["git", "-C", wt, "apply", os.path.join(outdir, m + ".diff")])
        caught, odd = [], []
        desc0 = open(os.path.join(outdir, m + ".txt")).read()
        first = next((v for k, v in ORDER.items() if desc0.startswith(k)), [])
        order = first + [i for i in ids if i not in first]
        if os.environ.get("AUTOMUT_TOP") == "1" and first:
            order = first  # only the checks that bear on the mutated file (a quicker census; says so in its output)
        for p in order:
            if caught and os.environ.get("AUTOMUT_ALL") != "1":
                break  # census question is caught / not caught; AUTOMUT_ALL=1 runs every check regardless
            r = subprocess.run([os.path.join(verif, "check"), p, "quick"], cwd=verif, env=dict(os.environ, VERIF_REPO=wt, VERIF_PAR=os.environ.get("VERIF_PAR", "8")),
                               stdout=subprocess.PIPE, stderr=subprocess.STDOUT)
            if r.returncode == 1:
                caught.append(p)
            elif r.returncode != 0:
                odd.append(p)
        desc = open(os.path.join(outdir, m + ".txt")).read().strip()
        if caught:
            open(resf, "a").write("%s caught-by=%s%s :: %s\n" % (m, ",".join(caught), (" inconclusive=" + ",".join(odd)) if odd else "", desc))
        else:
            open(resf, "a").write("%s MISSED%s%s :: %s\n" % (m, (" inconclusive=" + ",".join(odd)) if odd else "", " (only %s tried)" % ",".join(order) if len(order) < len(ids) else "", desc))
    subprocess.check_call(["git", "-C", wt, "checkout", "-q", "--", "."])


if __name__ == "__main__":
    cmd = sys.argv[1]
    if cmd == "gen":
        gen(sys.argv[2])
    elif cmd == "gen2":
        gen2(sys.argv[2])
    elif cmd == "suite":
        suite(sys.argv[2], int(sys.argv[3]), int(sys.argv[4]))
    elif cmd == "checks":
        checks(sys.argv[2], int(sys.argv[3]), int(sys.argv[4]))
