#!/bin/bash
id=$1; shift
/verif/tools/evalseed.sh $id ${id}m /tmp/wd-$id 2>&1 | grep -E "^(RESULT|CONFIRMED|NOT)"
[ -d /verif/seeded/${id}m ] && WIDTH=${WIDTH:-300} /verif/tools/withpatch.sh /verif/seeded/${id}m/patch.diff "$@"
