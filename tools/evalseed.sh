#!/bin/bash
# evalseed.sh <ID> [name] : confirm a sub-agent's seeded change in its scratch worktree, file it under /verif/seeded/, and run checks against it.
# usage: tools/evalseed.sh C01            (reads /tmp/wt-C01/SEED)
set -u
id=$1; name=${2:-$id}; wt=${3:-/tmp/wt-$id}
export GOFLAGS=-mod=mod GOPROXY=off GOSUMDB=off GOTOOLCHAIN=local
seed=$wt/SEED
[ -f $seed/patch.diff ] || { echo "no patch in $seed"; exit 3; }
cd $wt || exit 3
git checkout -q -- . ; rm -f demo_test.go
echo "--- demo WITHOUT patch (must pass)"
cp $seed/demo_test.go ./zz_seed_demo_test.go
extra=""; grep -qi -- "-race" $seed/NOTES.md 2>/dev/null && extra="-race"
go test -vet=off -count=1 $extra -run TestSeedDemo . 2>&1 | tail -3; r_without=${PIPESTATUS[0]}
git apply $seed/patch.diff || { echo "patch does not apply"; rm -f zz_seed_demo_test.go; exit 3; }
echo "--- demo WITH patch (must fail)"
go test -vet=off -count=1 $extra -run TestSeedDemo . 2>&1 | tail -6; r_with=${PIPESTATUS[0]}
rm -f zz_seed_demo_test.go
echo "--- full suite WITH patch (must pass)"
go build $(go list ./... | grep -v /SEED) && go test -vet=off -count=1 $(go list ./... | grep -v /SEED) 2>&1 | tail -7; r_suite=${PIPESTATUS[0]}
git checkout -q -- .
echo "RESULT without=$r_without with=$r_with suite=$r_suite"
if [ "$r_without" = 0 ] && [ "$r_with" != 0 ] && [ "$r_suite" = 0 ]; then
  mkdir -p /verif/seeded/$name
  cp $seed/patch.diff /verif/seeded/$name/patch.diff
  cp $seed/demo_test.go /verif/seeded/$name/demo_test.go
  [ -f $seed/NOTES.md ] && cp $seed/NOTES.md /verif/seeded/$name/NOTES.md
  echo "CONFIRMED -> /verif/seeded/$name"
else
  echo "NOT CONFIRMED"
fi
