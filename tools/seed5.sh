#!/bin/bash
id=$1; shift
/verif/tools/evalseed.sh $id ${id}e /tmp/w5-$id 2>&1 | grep -E "^(RESULT|CONFIRMED|NOT)"
[ -d /verif/seeded/${id}e ] && WIDTH=${WIDTH:-300} /verif/tools/withpatch.sh /verif/seeded/${id}e/patch.diff "$@"
