#!/usr/bin/env python3
"""mkmutant.py <name> <file-relative-to-/repo> <old> <new> [<file2> <old2> <new2> ...]
Creates /verif/mutants/<name>.diff (a hand-made sensitivity mutant) without leaving /repo modified."""
import subprocess, sys
name = sys.argv[1]
args = sys.argv[2:]
assert len(args) % 3 == 0
subprocess.check_call(["git", "-C", "/repo", "diff", "--quiet"])
try:
    for i in range(0, len(args), 3):
        f, old, new = args[i:i+3]
        p = "/repo/" + f
        s = open(p).read()
        assert s.count(old) == 1, (f, old, s.count(old))
        open(p, "w").write(s.replace(old, new))
    d = subprocess.check_output(["git", "-C", "/repo", "diff"])
    open("/verif/mutants/%s.diff" % name, "wb").write(d)
    env = {"GOFLAGS": "-mod=mod", "GOPROXY": "off", "GOSUMDB": "off", "GOTOOLCHAIN": "local"}
    import os
    e = dict(os.environ); e.update(env)
    r = subprocess.run("go build ./... && go test -vet=off -count=1 ./... 2>&1 | grep -v '^ok' | head -5", shell=True, cwd="/repo", env=e, stdout=subprocess.PIPE, stderr=subprocess.STDOUT)
    out = r.stdout.decode().strip()
    print(name, ": suite", "PASSES" if out == "" else "FAILS/BUILD: " + out[:300])
finally:
    subprocess.check_call(["git", "-C", "/repo", "checkout", "--", "."])
