#!/bin/bash
id=$1; shift
/verif/tools/evalseed.sh $id ${id}q /tmp/wh-$id 2>&1 | grep -E "^(RESULT|CONFIRMED|NOT)"
[ -d /verif/seeded/${id}q ] && WIDTH=${WIDTH:-300} /verif/tools/withpatch.sh /verif/seeded/${id}q/patch.diff "$@"
