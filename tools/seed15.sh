#!/bin/bash
id=$1; shift
/verif/tools/evalseed.sh $id ${id}o /tmp/wf-$id 2>&1 | grep -E "^(RESULT|CONFIRMED|NOT)"
[ -d /verif/seeded/${id}o ] && WIDTH=${WIDTH:-300} /verif/tools/withpatch.sh /verif/seeded/${id}o/patch.diff "$@"
