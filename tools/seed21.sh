#!/bin/bash
id=$1; shift
/verif/tools/evalseed.sh $id ${id}u /tmp/wl-$id 2>&1 | grep -E "^(RESULT|CONFIRMED|NOT)"
[ -d /verif/seeded/${id}u ] && WIDTH=${WIDTH:-300} /verif/tools/withpatch.sh /verif/seeded/${id}u/patch.diff "$@"
