#!/bin/bash
id=$1; shift
/verif/tools/evalseed.sh $id ${id}f /tmp/w6-$id 2>&1 | grep -E "^(RESULT|CONFIRMED|NOT)"
[ -d /verif/seeded/${id}f ] && WIDTH=${WIDTH:-300} /verif/tools/withpatch.sh /verif/seeded/${id}f/patch.diff "$@"
