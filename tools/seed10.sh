#!/bin/bash
id=$1; shift
/verif/tools/evalseed.sh $id ${id}j /tmp/wa-$id 2>&1 | grep -E "^(RESULT|CONFIRMED|NOT)"
[ -d /verif/seeded/${id}j ] && WIDTH=${WIDTH:-300} /verif/tools/withpatch.sh /verif/seeded/${id}j/patch.diff "$@"
