#!/bin/bash
# seed2.sh <ID> <checks...> : confirm a round-2 seed from /tmp/w2-<ID>, file it as seeded/<ID>b, run the given checks against it in a scratch worktree
id=$1; shift
/verif/tools/evalseed.sh $id ${id}b /tmp/w2-$id 2>&1 | grep -E "^(RESULT|CONFIRMED|NOT)"
[ -d /verif/seeded/${id}b ] && WIDTH=${WIDTH:-330} /verif/tools/withpatch.sh /verif/seeded/${id}b/patch.diff "$@"
