#!/bin/bash
# runmutant.sh <diff> <ID> [tier]  -- apply a patch to /repo, run one check, always revert
set -u
diff=$(realpath "$1"); id=$2; tier=${3:-quick}
git -C /repo diff --quiet || { echo "/repo dirty"; exit 3; }
git -C /repo apply "$diff" || { echo "patch does not apply"; exit 3; }
trap 'git -C /repo checkout -- . ; git -C /repo clean -fdq' EXIT
cd /verif && ./check "$id" "$tier" 2>&1 | grep -E "^(VIOLATION|OK|INCONCLUSIVE|KNOWN|  detail)" | cut -c1-400
echo "exit=${PIPESTATUS[0]}"
