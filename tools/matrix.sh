#!/bin/bash
# matrix.sh [seeded|mutants] : sensitivity matrix - run the quick check of the property each seeded change was written against
# (scratch worktree, /repo untouched) and print one line per change: CAUGHT / MISSED.
cd "$(dirname "$0")/.."
root=$(pwd)
kind=${1:-seeded}
n=0; caught=0
if [ "$kind" = seeded ]; then
  for d in seeded/*/; do
    name=$(basename $d)
    prop=$(python3 -c "import json;m=json.load(open('$d/meta.json'));print(m.get('caught_by_quick_tier') if m.get('caught_by_quick_tier','') in [f'C{i:02d}' for i in range(1,20)] else m['breaks_property'])")
    out=$(WIDTH=160 tools/withpatch.sh $d/patch.diff $prop 2>&1 | grep "check=")
    n=$((n+1))
    if echo "$out" | grep -q "rc=1"; then caught=$((caught+1)); echo "CAUGHT $name by $prop"; else echo "MISSED $name by $prop :: $out"; fi
  done
else
  for f in mutants/*.diff; do
    name=$(basename $f .diff)
    prop=$(echo $name | sed -E 's/^(c[0-9]+)-.*/\U\1/; s/^fix-revert-f1.*/C09/; s/^fix-revert-f2.*/C06/; s/^fix-revert-f5.*/C13/')
    out=$(WIDTH=160 tools/withpatch.sh $f $prop 2>&1 | grep "check=")
    n=$((n+1))
    if echo "$out" | grep -q "rc=1"; then caught=$((caught+1)); echo "CAUGHT $name by $prop"; else echo "MISSED $name by $prop :: $out"; fi
  done
fi
echo "TOTAL $kind: $caught of $n caught"
