#!/usr/bin/env python3
"""Regenerates MANIFEST.json from tools/manifest_src.json (claimed checks) and properties.jsonl."""
import json
src = json.load(open('/verif/tools/manifest_src.json'))
props = [json.loads(l)['id'] for l in open('/verif/properties.jsonl')]
checks = []
for pid in props:
    if pid not in src['claimed']:
        continue
    c = src['claimed'][pid]
    checks.append({
        "property_id": pid,
        "quick_cmd": "./check %s quick" % pid,
        "thorough_cmd": "./check %s thorough" % pid,
        "evidence_file": "/verif/evidence/%s.json" % pid,
        "replay_cmd_template": "./check %s quick --replay {path}" % pid,
        "engine": "harness",
        "level_claimed": {"category": "exploration", "text": c["text"], "design_ref": c["design_ref"]},
        "level_note": c["note"],
        "technique": c["technique"],
    })
na = [{"property_id": p, "reason": src.get("na", {}).get(p, "check not built yet in this session; will be claimed once its generated-input check exists")} for p in props if p not in src['claimed']]
m = {
    "version": 1,
    "setup_cmd": "./setup.sh",
    "hooks": {"guard": "verif", "enable": "none needed: all checks use the public API only (go test -tags verif is a no-op)", "baseline_off_cmd": src["baseline_off_cmd"], "source_commits": [], "add_only": True},
    "engines": [{"name": "harness", "path": "/verif/harness", "serves_properties": [c["property_id"] for c in checks],
                 "kind_free_text": "Go module: pgregory.net/rapid v1.3.0 property-based tests + small-scope exhaustive enumeration + native go fuzzing, reference models as oracles; driver ./check"}],
    "checks": checks,
    "notes": src["notes"],
    "not_applicable": na,
}
json.dump(m, open('/verif/MANIFEST.json', 'w'), indent=1)
print("claimed", len(checks), "not_applicable", len(na))
