#!/bin/bash
# runseed.sh <seedname> <ID>... : apply /verif/seeded/<seedname>/patch.diff to /repo, run the quick checks of the given properties, always revert
name=$1; shift
git -C /repo diff --quiet || { echo "/repo dirty"; exit 3; }
git -C /repo apply /verif/seeded/$name/patch.diff || { echo "patch does not apply"; exit 3; }
trap 'git -C /repo checkout -- . ; git -C /repo clean -fdq' EXIT
cd /verif
for id in "$@"; do
  out=$(./check $id ${TIER:-quick} 2>&1); rc=$?
  echo "seed=$name check=$id rc=$rc :: $(echo "$out" | grep -E '^(VIOLATION|OK|INCONCLUSIVE|  detail)' | head -2 | cut -c1-420 | tr '\n' ' ')"
done
