#!/bin/bash
id=$1; shift
/verif/tools/evalseed.sh $id ${id}g /tmp/w7-$id 2>&1 | grep -E "^(RESULT|CONFIRMED|NOT)"
[ -d /verif/seeded/${id}g ] && WIDTH=${WIDTH:-300} /verif/tools/withpatch.sh /verif/seeded/${id}g/patch.diff "$@"
