#!/bin/bash
# harvest.sh <diff> <name> <ID> : apply a patch, run the quick check, copy the first (shrunk) replay into corpus/<ID>/<name>.json, revert
diff=$(realpath "$1"); name=$2; id=$3
git -C /repo diff --quiet || { echo "/repo dirty"; exit 3; }
git -C /repo apply "$diff" || exit 3
trap 'git -C /repo checkout -- . ; git -C /repo clean -fdq' EXIT
cd /verif
out=$(VERIF_PAR=4 ./check $id quick 2>&1)
path=$(echo "$out" | grep -m1 '^VIOLATION' | sed 's/.*replay=//')
if [ -n "$path" ] && [ -f "$path" ] && [[ "$path" == *.json ]]; then
  mkdir -p corpus/$id; cp "$path" corpus/$id/$name.json; echo "harvested corpus/$id/$name.json ($(wc -c < "$path") bytes)"
else echo "nothing harvested for $name/$id: $(echo "$out" | head -2)"; fi
