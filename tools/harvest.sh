#!/bin/bash
# harvest.sh <diff> <name> <ID> : run the quick check against a scratch worktree with the patch applied and copy the first (shrunk) replay into corpus/<ID>/<name>.json
diff=$(realpath "$1"); name=$2; id=$3
wt=$(mktemp -d /tmp/hv-XXXXXX); rmdir $wt
git -C /repo worktree add --detach -q $wt HEAD || exit 3
trap 'git -C /repo worktree remove --force '$wt' >/dev/null 2>&1; git -C /repo worktree prune' EXIT
git -C $wt apply "$diff" || exit 3
cd /verif
out=$(VERIF_REPO=$wt VERIF_PAR=4 ./check $id quick 2>&1)
path=$(echo "$out" | grep -m1 '^VIOLATION' | sed 's/.*replay=//')
if [ -n "$path" ] && [ -f "$path" ] && [[ "$path" == *.json ]] && [[ "$path" != */corpus/* ]]; then
  mkdir -p corpus/$id; cp "$path" corpus/$id/$name.json; echo "harvested corpus/$id/$name.json ($(wc -c < "$path") bytes)"
else echo "nothing new harvested for $name/$id: $(echo "$out" | grep -m1 -E '^(VIOLATION|OK|INCONCLUSIVE)' | cut -c1-120)"; fi
