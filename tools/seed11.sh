#!/bin/bash
id=$1; shift
/verif/tools/evalseed.sh $id ${id}k /tmp/wb-$id 2>&1 | grep -E "^(RESULT|CONFIRMED|NOT)"
[ -d /verif/seeded/${id}k ] && WIDTH=${WIDTH:-300} /verif/tools/withpatch.sh /verif/seeded/${id}k/patch.diff "$@"
