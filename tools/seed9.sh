#!/bin/bash
id=$1; shift
/verif/tools/evalseed.sh $id ${id}i /tmp/w9-$id 2>&1 | grep -E "^(RESULT|CONFIRMED|NOT)"
[ -d /verif/seeded/${id}i ] && WIDTH=${WIDTH:-300} /verif/tools/withpatch.sh /verif/seeded/${id}i/patch.diff "$@"
