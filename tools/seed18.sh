#!/bin/bash
id=$1; shift
/verif/tools/evalseed.sh $id ${id}r /tmp/wi-$id 2>&1 | grep -E "^(RESULT|CONFIRMED|NOT)"
[ -d /verif/seeded/${id}r ] && WIDTH=${WIDTH:-300} /verif/tools/withpatch.sh /verif/seeded/${id}r/patch.diff "$@"
