#!/bin/bash
# withpatch.sh <patch.diff> <ID>... : run the quick (or $TIER) checks of the given properties against a scratch worktree of /repo with the patch
# applied (VERIF_REPO override), so that /repo itself is never touched and several runs can go on in parallel. The worktree is removed afterwards.
diff=$(realpath "$1"); shift
wt=$(mktemp -d /tmp/wp-XXXXXX); rmdir $wt
git -C /repo worktree add --detach -q $wt HEAD || exit 3
trap 'git -C /repo worktree remove --force '$wt' >/dev/null 2>&1; git -C /repo worktree prune' EXIT
git -C $wt apply "$diff" || { echo "patch does not apply"; exit 3; }
cd "$(dirname "$0")/.."
for id in "$@"; do
  out=$(VERIF_REPO=$wt ./check $id ${TIER:-quick} 2>&1); rc=$?
  echo "patch=$(basename $(dirname $diff))/$(basename $diff) check=$id rc=$rc :: $(echo "$out" | grep -E '^(VIOLATION|OK|INCONCLUSIVE|  detail)' | head -2 | cut -c1-${WIDTH:-300} | tr '\n' ' ')"
done
