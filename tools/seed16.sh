#!/bin/bash
id=$1; shift
/verif/tools/evalseed.sh $id ${id}p /tmp/wg-$id 2>&1 | grep -E "^(RESULT|CONFIRMED|NOT)"
[ -d /verif/seeded/${id}p ] && WIDTH=${WIDTH:-300} /verif/tools/withpatch.sh /verif/seeded/${id}p/patch.diff "$@"
