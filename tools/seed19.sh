#!/bin/bash
id=$1; shift
/verif/tools/evalseed.sh $id ${id}s /tmp/wj-$id 2>&1 | grep -E "^(RESULT|CONFIRMED|NOT)"
[ -d /verif/seeded/${id}s ] && WIDTH=${WIDTH:-300} /verif/tools/withpatch.sh /verif/seeded/${id}s/patch.diff "$@"
